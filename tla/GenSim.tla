------------------------------- MODULE GenSim -------------------------------
(***************************************************************************)
(* State-machine generator run in TLC's simulation mode (fixed seeds in    *)
(* the harness => a closed corpus): random SSA-style scalar programs.      *)
(* State = the statements so far; actions AddLet / AddCond / AddProj /     *)
(* Finish; operands are chosen with RandomElement among inputs, earlier    *)
(* results and literals, so sharing (DAGs), deep nesting and mixed types   *)
(* arise.  Every `done` state is printed once as JSON from an invariant.   *)
(***************************************************************************)
EXTENDS Facto, FiniteSets, Json

VARIABLES g_stmts, g_done
MaxStmts == 7
Ins == <<SIn("a", "signal-A", 5), SIn("b", "signal-B", -3), SIn("c", "iron-plate", 7), SIn("u", "", 2)>>
Names == {"a", "b", "c", "u"} \cup {g_stmts[i].n : i \in DOMAIN g_stmts}
Lits == {Num(v) : v \in {-3, 0, 1, 2, 7, 31, 65536}}
Leaves == {Ref(n) : n \in Names} \cup Lits
SigLeaves == {Ref(n) : n \in Names}
Fresh == "v" \o ToString(Len(g_stmts) + 1)
Types == {TName("signal-X"), TName("signal-Y"), TName("copper-plate")}
Init == g_stmts = <<>> /\ g_done = FALSE
Add(e) == g_stmts' = Append(g_stmts, SLet("Signal", Fresh, e)) /\ UNCHANGED g_done
\* random choices are bound once (RandomElement is re-evaluated at every use)
AddLet == /\ ~g_done /\ Len(g_stmts) < MaxStmts
          /\ \E op \in {RandomElement(BinOps)} : \E l \in {RandomElement(Leaves)} : \E r \in {RandomElement(Leaves)} :
               (l.k = "ref" \/ r.k = "ref") /\ Add(Bin(op, l, r))
AddNested == /\ ~g_done /\ Len(g_stmts) < MaxStmts
             /\ \E o1 \in {RandomElement(BinOps)} : \E o2 \in {RandomElement(ArithOps)} :
                \E x \in {RandomElement(SigLeaves)} : \E y \in {RandomElement(Leaves)} : \E z \in {RandomElement(Leaves)} :
                \E left \in {RandomElement({TRUE, FALSE})} :
                  Add(IF left THEN Bin(o1, Bin(o2, x, y), z) ELSE Bin(o1, z, Bin(o2, x, y)))
AddCond == /\ ~g_done /\ Len(g_stmts) < MaxStmts
           /\ \E op \in {RandomElement(CmpOps)} : \E l \in {RandomElement(SigLeaves)} : \E r \in {RandomElement(Leaves)} : \E v \in {RandomElement(Leaves)} :
                Add(CondE(Bin(op, l, r), v))
AddProj == /\ ~g_done /\ Len(g_stmts) < MaxStmts
           /\ \E x \in {RandomElement(SigLeaves)} : \E t \in {RandomElement(Types)} : Add(Proj(x, t))
AddUn == /\ ~g_done /\ Len(g_stmts) < MaxStmts
         /\ \E x \in {RandomElement(SigLeaves)} : \E op \in {RandomElement({"-", "!"})} : Add(Un(op, x))
Finish == ~g_done /\ Len(g_stmts) >= 3 /\ g_done' = TRUE /\ UNCHANGED g_stmts
Next == AddLet \/ AddNested \/ AddCond \/ AddProj \/ AddUn \/ Finish
Spec == Init /\ [][Next]_<<g_stmts, g_done>>
Prog == Ins \o g_stmts
Emit == g_done => PrintT(<<"PROG", ToJson([grp |-> "sim", stmts |-> Prog, src |-> Render(Prog)])>>)
=============================================================================
