------------------------------- MODULE Canon -------------------------------
(***************************************************************************)
(* C19: the same source always yields the same LOGICAL circuit.            *)
(* Canonical form of a blueprint: positions, entity numbering and relay    *)
(* poles erased (poles are contracted: they are pure junctions);           *)
(*   - the multiset of configured entities (entity key = the whole entity  *)
(*     record, label included, minus position and number)                  *)
(*   - the partition of the circuit connectors of those entities into      *)
(*     networks, each network represented by the bag of <<key, connector>> *)
(*     it contains (isomorphism-invariant; complete up to 1-WL)            *)
(* Data: BPs, Recs == << [id, units |-> <<u0, u1, ...>>, how |-> <<..>>] >>*)
(* every build u_k must have the canonical form of u_0.                    *)
(***************************************************************************)
EXTENDS Circuit

Key(u, e) == [k \in (DOMAIN Ents(u)[e]) \ {"position", "entity_number", "desc"} |-> Ents(u)[e][k]]
Solid(u) == {e \in Ids(u) : KindT[u][e] # "P"}
CircuitConns(u, e) == IF KindT[u][e] \in {"A", "D"} THEN {1, 2, 3, 4} ELSE {1, 2}
Points(u) == {<<e, c>> : e \in Solid(u), c \in 1..4} \cap UNION {{<<e, c>> : c \in CircuitConns(u, e)} : e \in Solid(u)}
\* circuit networks (copper wires ignored): components of the wire graph restricted to circuit connectors, poles contracted
CAdj(u) == LET WS == {w \in SeqSet(BPs[u].wires) : w[2] \in 1..4 /\ w[4] \in 1..4 /\ w[1] \in Ids(u) /\ w[3] \in Ids(u)} IN
   [q \in Ids(u) \X (1..4) |-> {<<w[3], w[4]>> : w \in {w \in WS : w[1] = q[1] /\ w[2] = q[2]}}
                             \cup {<<w[1], w[2]>> : w \in {w \in WS : w[3] = q[1] /\ w[4] = q[2]}}]
CompsT == [u \in Units |-> LET A == CAdj(u) IN {Reach(A, {q}, {q}) \cap Points(u) : q \in Points(u)}]
Sig(u, C) == LET KC == {<<Key(u, pt[1]), pt[2]>> : pt \in C} IN
             [kc \in KC |-> Cardinality({pt \in C : <<Key(u, pt[1]), pt[2]>> = kc})]
NetSigsT == [u \in Units |-> {Sig(u, C) : C \in CompsT[u]}]
SigCount(u, s) == Cardinality({C \in CompsT[u] : Sig(u, C) = s})
KeysT == [u \in Units |-> {Key(u, e) : e \in Solid(u)}]
KeyCount(u, k) == Cardinality({e \in Solid(u) : Key(u, e) = k})
EntityDiff(a, b) == {k \in KeysT[a] \cup KeysT[b] : KeyCount(a, k) # KeyCount(b, k)}
NetDiff(a, b) == {s \in NetSigsT[a] \cup NetSigsT[b] : SigCount(a, s) # SigCount(b, s)}
Short(k) == [name |-> k.name, label |-> IF "player_description" \in DOMAIN k THEN k.player_description ELSE ""]

PIDs == 1..Len(Recs)
Fail(p, clause, info) == PrintT(<<"FAIL", Recs[p].id, clause, info>>)
Check(p) == \A i \in 2..Len(Recs[p].units) :
  LET a == Recs[p].units[1]  b == Recs[p].units[i] IN
  /\ (EntityDiff(a, b) = {} \/ Fail(p, "C19_entities", [variant |-> Recs[p].how[i], differs |-> {Short(k) : k \in EntityDiff(a, b)}]))
  /\ (EntityDiff(a, b) # {} \/ NetDiff(a, b) = {} \/ Fail(p, "C19_networks", [variant |-> Recs[p].how[i], networks |-> Cardinality(NetDiff(a, b))]))
ASSUME \A p \in PIDs : Check(p)
ASSUME \A p \in PIDs : PrintT(<<"CANON", Recs[p].id, Len(Recs[p].units), Cardinality(KeysT[Recs[p].units[1]]), Cardinality(CompsT[Recs[p].units[1]])>>)
VARIABLE c_x
CInit == c_x = 0
CNext == c_x' = c_x
=============================================================================
