SPECIFICATION MCSpec
INVARIANT MergeSound
INVARIANT Partition
INVARIANT RewireSound
PROPERTY Terminates
CHECK_DEADLOCK FALSE
