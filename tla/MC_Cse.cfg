SPECIFICATION MCSpec
INVARIANT MergeSound
INVARIANT Partition
INVARIANT RewireSound
INVARIANT NoDuplicateKept
PROPERTY Terminates
CHECK_DEADLOCK FALSE
