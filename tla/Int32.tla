------------------------------- MODULE Int32 -------------------------------
(***************************************************************************)
(* Factorio 2.0 signal arithmetic: signed 32-bit two's complement.         *)
(* TLC integers are Java ints and RAISE on overflow, so every operator     *)
(* here works on 16-bit limbs and never leaves the 32-bit range.           *)
(*   + - * << **  wrap around;  /  truncates toward zero;  %  has the sign *)
(*   of the dividend;  x/0 = x%0 = 0;  >>  is arithmetic;  AND OR XOR are  *)
(*   bitwise on the two's complement representation.                       *)
(* Corners the model does not claim to know (shift counts outside 0..31,   *)
(* negative exponents, MinI / -1) are excluded by OpDefined, never guessed.*)
(***************************************************************************)
EXTENDS Integers, Bitwise

I32_W  == 65536
I32_HW == 32768
MaxI == 2147483647
MinI == -2147483647 - 1

I32_Hi(x) == x \div I32_W            \* floor division: signed high limb
I32_Lo(x) == x % I32_W               \* 0..65535
I32_Mk(h, l) == h * I32_W + l
I32_WrapHi(h) == ((h + I32_HW) % I32_W) - I32_HW

Add32(a, b) == LET l == I32_Lo(a) + I32_Lo(b)
               IN I32_Mk(I32_WrapHi(I32_Hi(a) + I32_Hi(b) + (l \div I32_W)), l % I32_W)
Sub32(a, b) == LET l == I32_Lo(a) - I32_Lo(b)
               IN I32_Mk(I32_WrapHi(I32_Hi(a) - I32_Hi(b) + (l \div I32_W)), l % I32_W)
Neg32(a) == Sub32(0, a)

Mul32(a, b) ==
  LET aH == I32_Hi(a)  aL == I32_Lo(a)  bH == I32_Hi(b)  bL == I32_Lo(b)
      a0 == aL % 256   a1 == aL \div 256
      p0 == a0 * bL    p1 == a1 * bL
      low == p0 + (p1 % 256) * 256
      carry == (low \div I32_W) + (p1 \div 256)
      mid == ((aH * bL) % I32_W) + ((aL * bH) % I32_W)
  IN I32_Mk(I32_WrapHi((mid + carry) % I32_W), low % I32_W)

\* truncating division; b = 0 gives 0; (MinI, -1) is excluded by OpDefined
Div32(a, b) ==
  IF b = 0 THEN 0
  ELSE IF b = MinI THEN (IF a = MinI THEN 1 ELSE 0)
  ELSE LET q == a \div b
           ab == IF b < 0 THEN -b ELSE b
       IN IF (a % ab = 0) \/ ((a < 0) = (b < 0)) THEN q ELSE q + 1
Rem32(a, b) == IF b = 0 THEN 0
               ELSE IF b = MinI THEN (IF a = MinI THEN 0 ELSE a)
               ELSE Sub32(a, Mul32(Div32(a, b), b))

RECURSIVE Pow32(_, _)
Pow32(a, e) == IF e = 0 THEN 1
               ELSE LET h == Pow32(a, e \div 2)
                        s == Mul32(h, h)
                    IN IF e % 2 = 1 THEN Mul32(s, a) ELSE s

I32_Pow2T == [i \in 0..30 |-> 2^i]
Shl32(a, n) == IF n = 31 THEN (IF a % 2 = 1 THEN MinI ELSE 0) ELSE Mul32(a, I32_Pow2T[n])
Shr32(a, n) == IF n = 31 THEN (IF a < 0 THEN -1 ELSE 0) ELSE a \div I32_Pow2T[n]

I32_HiU(x) == I32_Hi(x) % I32_W
I32_Bit(op(_, _), a, b) == I32_Mk(I32_WrapHi(op(I32_HiU(a), I32_HiU(b))), op(I32_Lo(a), I32_Lo(b)))
And32(a, b) == I32_Bit(LAMBDA x, y: x & y, a, b)
Or32(a, b)  == I32_Bit(LAMBDA x, y: x | y, a, b)
Xor32(a, b) == I32_Bit(LAMBDA x, y: x ^^ y, a, b)

\* Factorio operation names as they appear in blueprint JSON
Op32(op, a, b) ==
  CASE op = "+" -> Add32(a, b) [] op = "-" -> Sub32(a, b) [] op = "*" -> Mul32(a, b)
    [] op = "/" -> Div32(a, b) [] op = "%" -> Rem32(a, b) [] op = "^" -> Pow32(a, b)
    [] op = "<<" -> Shl32(a, b) [] op = ">>" -> Shr32(a, b)
    [] op = "AND" -> And32(a, b) [] op = "OR" -> Or32(a, b) [] op = "XOR" -> Xor32(a, b)

\* corners of Factorio arithmetic this model does not claim to know (DESIGN 5.4)
OpDefined(op, a, b) ==
  CASE op \in {"<<", ">>"} -> b >= 0 /\ b <= 31
    [] op = "^" -> b >= 0
    [] op \in {"/", "%"} -> ~(a = MinI /\ b = -1)
    [] OTHER -> TRUE

InInt32(x) == x >= MinI /\ x <= MaxI
=============================================================================
