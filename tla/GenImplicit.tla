---------------------------- MODULE GenImplicit ----------------------------
(***************************************************************************)
(* Generator specification for C13: untyped values (compiler-chosen        *)
(* signals) mixed with explicit uses of the first pool signals; each       *)
(* program carries its RenameImplicit twin (every untyped value given a    *)
(* fresh, otherwise unused explicit type).                                 *)
(***************************************************************************)
EXTENDS Facto, FiniteSetsExt, SequencesExt, Json, IOUtils

P(grp, stmts) == LET t == RenameImplicit(stmts) IN [grp |-> grp, stmts |-> stmts, src |-> Render(stmts), stmts2 |-> t, src2 |-> Render(t)]
X == Ref("x")  Y == Ref("y")  Z == Ref("z")  U == Ref("u")
Ex(n, t, v) == SIn(n, t, v)
Unt(n, v) == SIn(n, "", v)
Kn(n, v) == SLet("Signal", n, Num(v))
FirstSigs == {"signal-A", "signal-B", "signal-C"}
Ops == {"+", "*", "-", ">", "=="}
Basic == {P("basic", <<Ex("x", t, 5), Unt("y", 7), SLet("Signal", "r", Bin(op, X, Y)), SLet("Signal", "s", Bin(op, Y, X))>>) : t \in FirstSigs, op \in Ops}
Consts == {P("const", <<Ex("x", t, 5), Kn("y", 7), SLet("Signal", "r", Bin(op, X, Y))>>) : t \in FirstSigs, op \in Ops}
Several == {
  P("several", <<Ex("x", "signal-A", 5), Ex("z", "signal-B", -3), Unt("y", 7), Unt("u", 2), SLet("Signal", "r", Bin("+", Bin("*", X, Y), Bin("*", Z, U)))>>),
  P("several", <<Unt("y", 7), Unt("u", 2), Ex("x", "signal-A", 5), Ex("z", "signal-B", -3), SLet("Signal", "r", Bin("+", Bin("+", Y, U), Bin("+", X, Z)))>>),
  P("several", <<Unt("y", 7), Unt("u", 2), SLet("Signal", "r", Bin("-", Y, U)), SLet("Signal", "p", Proj(Y, TName("signal-B"))), SLet("Signal", "q", Bin("+", Ref("p"), U))>>),
  P("several", <<Unt("y", 7), SLet("Signal", "k", Lit(TName("signal-A"), Num(3))), SLet("Signal", "r", Bin("+", Y, Ref("k"))), SLet("Signal", "s", Bin("+", Ref("k"), Y))>>),
  P("several", <<Unt("y", 7), Ex("x", "signal-C", 5), SLet("Signal", "c", Bin(">", Y, Num(3))), SLet("Signal", "r", Bin("+", Ref("c"), X)), SLet("Signal", "s", CondE(Bin(">", Y, Num(3)), X))>>),
  P("several", <<Unt("y", 7), Unt("u", 2), Ex("x", "signal-B", 5), SLet("Bundle", "bb", BLit(<<X, Lit(TName("signal-A"), Num(4))>>)), SLet("Bundle", "r", Bin("*", Ref("bb"), Y)),
                 SLet("Signal", "s", Bin("+", Sel(Ref("bb"), "signal-A"), U))>>),
  P("several", <<Unt("y", 7), Ex("e", "signal-B", 0), SMem("m", ""), SWrite("m", Y, "when", Bin(">", Ref("e"), Num(0)), Num(0)), SLet("Signal", "o", ReadE("m"))>>),
  P("several", <<Ex("x", "signal-A", 5), Ex("z", "signal-B", -3), Ex("w", "signal-C", 2), Ex("v", "signal-D", 1), Unt("y", 7), SLet("Signal", "r", Bin("+", Bin("+", Bin("+", Bin("+", X, Z), Ref("w")), Ref("v")), Y))>>)
 }
\* many untyped values: the pool is walked well past the letters
Many(n) == [i \in 1..n |-> Unt("v" \o ToString(i), i)]
RECURSIVE SumRefs(_)
SumRefs(n) == IF n = 1 THEN Ref("v1") ELSE Bin("+", SumRefs(n - 1), Ref("v" \o ToString(n)))
ManyP == {P("many", <<Ex("x", "signal-E", 5)>> \o Many(n) \o <<SLet("Signal", "r", Bin("+", SumRefs(n), X))>>) : n \in {4, 12, 30}}
\* a typed constant used as a place() coordinate (documented idiom) is still an explicit signal of the program
Coord == {
  P("coord", <<Ex("px", "signal-A", 3), Unt("y", 7), SPlace("l", "small-lamp", Ref("px"), Num(0), <<>>), SLet("Bundle", "bb", BLit(<<Y, Ref("px")>>)),
               SProp("l", "enable", Bin("<", AllE(Ref("bb")), Num(8)))>>),
  P("coord", <<Ex("px", "signal-A", 3), Unt("y", 7), SPlace("l", "small-lamp", Ref("px"), Num(0), <<>>), SLet("Signal", "r", Bin("+", Y, Num(1)))>>),
  P("coord", <<Ex("px", "signal-B", 2), Ex("py", "signal-A", 4), Unt("y", 7), SPlace("l", "small-lamp", Ref("px"), Ref("py"), <<>>),
               SLet("Bundle", "bb", BLit(<<Y, Ref("py"), Ref("px")>>)), SProp("l", "enable", Bin(">", AnyE(Ref("bb")), Num(6)))>>),
  P("coord", <<Ex("px", "signal-C", 3), Unt("y", 7), Unt("u", 2), Unt("w", 1), SPlace("l", "steel-chest", Bin("+", Ref("px"), Num(1)), Num(0), <<>>),
               SLet("Signal", "r", Bin("+", Bin("+", Y, U), Ref("w")))>>)
 }
KindSigs == {"iron-plate", "water", "signal-red", "signal-A"}
Ops2 == {"+", "*", "-", "<<", "AND", "**", "%", "/"}
KindsP == {P("kinds", <<Ex("x", t, 5), Unt("y", 7), SLet("Signal", "r", Bin(op, Y, X)), SLet("Signal", "s", Bin(op, X, Y))>>) : t \in KindSigs, op \in Ops2}
     \cup {P("kinds", <<Ex("x", t, 5), Ex("z", t, 2), Unt("y", 7), SLet("Signal", "r", Bin("*", Y, X)), SLet("Signal", "f", Bin("&&", Bin(">", Ref("r"), Num(5)), Bin(">", Z, Num(1))))>>) : t \in KindSigs}
All == Basic \cup Consts \cup Several \cup ManyP \cup Coord \cup KindsP
ASSUME PrintT(<<"NPROGS", Cardinality(All)>>)
ASSUME JsonSerialize(IOEnv.GEN_OUT, SetToSeq(All))
=============================================================================
