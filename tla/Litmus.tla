------------------------------- MODULE Litmus -------------------------------
(***************************************************************************)
(* Design-level pinning of the Circuit machine: hand-built circuits whose  *)
(* in-game behaviour is documented (one-tick latency, +1 self-feedback     *)
(* clock, each-filter, everything/anything on an empty network, the        *)
(* textbook SR latch, red/green separation, each->single-signal sums).     *)
(* Data.tla supplies BPs (the circuits) and Expect: for each case          *)
(*   [u, e (observed entity), c (1 = input side, 3 = output side), sig,    *)
(*    vals (sequence: value after tick 0, 1, 2, ...)]                      *)
(***************************************************************************)
EXTENDS Circuit

RECURSIVE Run(_, _, _)
Run(u, o, n) == IF n = 0 THEN o ELSE Run(u, Step(u, o, <<>>), n - 1)
\* value of signal s emitted by combinator e after n ticks / seen at its input
OutAt(u, e, s, n) == Run(u, InitOut(u), n)[e][s]
InAt(u, e, s, n) == ObsSig(u, e, s, Run(u, InitOut(u), n), <<>>)
Got(x, n) == IF x.c = 3 THEN OutAt(x.u, x.e, x.sig, n) ELSE InAt(x.u, x.e, x.sig, n)
BadCases == {i \in DOMAIN Expect : \E n \in DOMAIN Expect[i].vals : Got(Expect[i], n - 1) # Expect[i].vals[n]}
ASSUME PrintT(<<"LITMUS", Len(Expect), BadCases,
                [i \in BadCases |-> [n \in DOMAIN Expect[i].vals |-> Got(Expect[i], n - 1)]]>>)
VARIABLE l_x
LInit == l_x = 0
LNext == l_x' = l_x
=============================================================================
