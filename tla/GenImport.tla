----------------------------- MODULE GenImport -----------------------------
(***************************************************************************)
(* Generator specification for C17: import graphs (chain, diamond, cycle,  *)
(* same file twice, self import, library + own file) with the pasted twin  *)
(* (Facto!Paste), and calls of every function of the bundled math library  *)
(* over boundary arguments.                                                *)
(***************************************************************************)
EXTENDS Facto, FiniteSetsExt, SequencesExt, Json, IOUtils

A == Ref("a")  B == Ref("b")
InA == SIn("a", "signal-A", 5)
InB == SIn("b", "signal-B", 2)
FX == [ty |-> "Signal", n |-> "x"]
Fn(n, body, ret) == SFunc(n, <<FX>>, body, ret)
X == Ref("x")
FA == Fn("fa", <<>>, Bin("+", Bin("*", X, Num(2)), Num(1)))
FB == Fn("fb", <<>>, Bin("-", X, Num(3)))
FAB == Fn("fa", <<SLet("Signal", "t", CallE("fb", <<X>>))>>, Bin("*", Ref("t"), Num(2)))      \* fa uses fb
FC == Fn("fc", <<SLet("Signal", "t", CallE("fb", <<X>>))>>, Bin("+", Ref("t"), X))
Imp(p) == SImport(p)
G(grp, main, files) == LET t == Paste(main, files) IN
   [grp |-> grp, stmts |-> main, src |-> Render(main), stmts2 |-> t, src2 |-> Render(t),
    files |-> files, filesrc |-> [f \in DOMAIN files |-> Render(files[f])],
    graph |-> [f \in (DOMAIN files) \cup {"<main>"} |-> LET ss == IF f = "<main>" THEN main ELSE files[f]
                                                        IN SelectSeq([i \in DOMAIN ss |-> IF ss[i].k = "import" THEN ss[i].path ELSE ""], LAMBDA q : q # "")]]
Use1 == <<InA, SLet("Signal", "r", CallE("fa", <<A>>))>>
Use2 == <<InA, InB, SLet("Signal", "r", CallE("fa", <<A>>)), SLet("Signal", "s", CallE("fc", <<B>>))>>
Graphs == {
  G("single", <<Imp("a.facto")>> \o Use1, ("a.facto" :> <<FA>>)),
  G("chain", <<Imp("a.facto")>> \o Use1, ("a.facto" :> <<Imp("b.facto"), FAB>>) @@ ("b.facto" :> <<FB>>)),
  G("diamond", <<Imp("a.facto"), Imp("c.facto")>> \o Use2, ("a.facto" :> <<Imp("b.facto"), FAB>>) @@ ("c.facto" :> <<Imp("b.facto"), FC>>) @@ ("b.facto" :> <<FB>>)),
  G("twice", <<Imp("a.facto"), Imp("a.facto")>> \o Use1, ("a.facto" :> <<FA>>)),
  G("twice", <<Imp("a.facto"), InA, Imp("a.facto"), SLet("Signal", "r", CallE("fa", <<A>>))>>, ("a.facto" :> <<FA>>)),
  G("cycle", <<Imp("a.facto")>> \o Use1, ("a.facto" :> <<Imp("b.facto"), FAB>>) @@ ("b.facto" :> <<Imp("a.facto"), FB>>)),
  G("cycle", <<Imp("b.facto"), Imp("a.facto")>> \o Use1, ("a.facto" :> <<Imp("b.facto"), FAB>>) @@ ("b.facto" :> <<Imp("a.facto"), FB>>)),
  G("self", <<Imp("a.facto")>> \o Use1, ("a.facto" :> <<Imp("a.facto"), FA>>)),
  G("cycle3", <<Imp("a.facto")>> \o Use2, ("a.facto" :> <<Imp("b.facto"), FAB>>) @@ ("b.facto" :> <<Imp("c.facto"), FB>>) @@ ("c.facto" :> <<Imp("a.facto"), Imp("b.facto"), FC>>))
 }

\* the importer lives in a directory that is ITSELF on the search path (<cwd>/example_programs) and a same-named but different
\* file lies in the working directory: the file next to the importer must win
FDecoy == Fn("fa", <<>>, Bin("+", Bin("*", X, Num(7)), Num(100)))
Decoys == {
  [g EXCEPT !.grp = "decoy", !.subdir = "example_programs", !.decoys = ("a.facto" :> Render(<<FDecoy>>))] : g \in {
      [G("single", <<Imp("a.facto")>> \o Use1, ("a.facto" :> <<FA>>)) EXCEPT !.grp = "decoy"] @@ [subdir |-> "", decoys |-> <<>>],
      [G("chain", <<Imp("a.facto")>> \o Use1, ("a.facto" :> <<Imp("b.facto"), FAB>>) @@ ("b.facto" :> <<FB>>)) EXCEPT !.grp = "decoy"] @@ [subdir |-> "", decoys |-> <<>>]}}
(* library: documented contracts of lib/math.facto (the interpreter's LibVal) *)
LibP(grp, stmts, dom) == [grp |-> grp, stmts |-> stmts, src |-> Render(stmts), dom |-> dom]
ML == Imp("math.facto")
DomS == <<MinI, -65537, -7, -1, 0, 1, 2, 5, 65536, MaxI>>
DomT == <<-7, 0, 1, 25, 50, 100, 150>>
R1(f, args) == SLet("Signal", "r", CallE(f, args))
Lib == {LibP("lib1", <<ML, InA, R1(f, <<A>>)>>, DomS) : f \in {"abs", "sign"}}
  \cup {LibP("lib2", <<ML, InA, InB, R1(f, <<A, B>>)>>, DomS) : f \in {"min", "max", "div_floor", "mod_positive"}}
  \cup {LibP("clamp", <<ML, InA, R1(f, <<A, Num(lh[1]), Num(lh[2])>>)>>, DomS) : f \in {"clamp", "between"}, lh \in {<<0, 10>>, <<-5, 5>>, <<3, 3>>, <<-65537, 65536>>}}
  \cup {LibP("lerp", <<ML, InA, R1("lerp", <<Num(ab[1]), Num(ab[2]), A>>)>>, DomT) : ab \in {<<0, 100>>, <<10, 20>>, <<-50, 50>>, <<100, 0>>}}
  \cup {LibP("bits", <<ML, InA, R1(f, <<A, Num(pos)>>)>>, DomS) : f \in {"get_bit", "set_bit", "clear_bit", "toggle_bit"}, pos \in {0, 1, 5, 30}}
  \cup {LibP("libnames", <<ML, SInt("x", Num(3)), SInt("value", Num(6)), SInt("mask", Num(255)), SInt("t", Num(60)), SInt("q", Num(4)), SInt("r", Num(9)), InA, SLet("Signal", "o", CallE(f, <<A>>))>>, DomS) : f \in {"abs", "sign"}}
  \cup {LibP("libnames", <<ML, SInt("x", Num(3)), SInt("low", Num(1)), SInt("high", Num(2)), InA, SLet("Signal", "o", CallE(f, <<A, Num(0), Num(10)>>))>>, DomS) : f \in {"clamp", "between"}}
  \cup {LibP("libnames", <<ML, SInt("value", Num(6)), SInt("mask", Num(255)), SInt("pos", Num(2)), InA, SLet("Signal", "o", CallE(f, <<A, Num(3)>>))>>, DomS) : f \in {"get_bit", "set_bit", "clear_bit", "toggle_bit"}}
  \cup {LibP("libnames", <<ML, SInt("t", Num(60)), SInt("a", Num(1)), SInt("b", Num(2)), SIn("s", "signal-A", 5), SLet("Signal", "o", CallE("lerp", <<Num(0), Num(100), Ref("s")>>))>>, DomT)}
  \cup {LibP("libnames", <<ML, SInt("q", Num(4)), SInt("r", Num(9)), SInt("remainder", Num(1)), SInt("abs_b", Num(5)), SIn("u", "signal-A", 5), SIn("v", "signal-B", 2), SLet("Signal", "o", CallE(f, <<Ref("u"), Ref("v")>>))>>, DomS) :
          f \in {"min", "max", "div_floor", "mod_positive"}}
  \cup {LibP("libmix", <<ML, InA, InB, SLet("Signal", "m", CallE("max", <<A, B>>)), SLet("Signal", "r", CallE("abs", <<Ref("m")>>))>>, DomS),
        LibP("libmix", <<ML, Imp("math.facto"), InA, R1("abs", <<A>>)>>, DomS)}
ASSUME PrintT(<<"NPROGS", Cardinality(Graphs), Cardinality(Lib)>>)
ASSUME JsonSerialize(IOEnv.GEN_OUT, SetToSeq({[p EXCEPT !.grp = "graph:" \o p.grp] : p \in Graphs}) \o SetToSeq({[p EXCEPT !.grp = "graph:" \o p.grp] : p \in Decoys})
                                    \o SetToSeq({[p EXCEPT !.grp = "lib:" \o p.grp] : p \in Lib}))
=============================================================================
