------------------------------- MODULE Alloc -------------------------------
(***************************************************************************)
(* Design model of the implicit-signal allocator (SignalAnalyzer):         *)
(* one action per decision point of the code, so that hook events H3 can   *)
(* be validated against it and TLC can say at design level whether the     *)
(* algorithm admits a bad state.                                           *)
(*   BuildPool(P)  the pool of allocatable virtual signals is fixed; the   *)
(*                 model requires what the property needs of it: no        *)
(*                 duplicates, no reserved signal, no wildcard, no signal  *)
(*                 the program names explicitly                            *)
(*   Allocate      hands out the next pool entry; on exhaustion warns once *)
(*                 and wraps around (as the code does)                     *)
(***************************************************************************)
EXTENDS Integers, Sequences, FiniteSets

CONSTANTS Reserved, Wildcards
VARIABLES a_explicit, a_pool, a_idx, a_map, a_warned, a_built
avars == <<a_explicit, a_pool, a_idx, a_map, a_warned, a_built>>

SeqSetA(s) == {s[i] : i \in DOMAIN s}
NoDup(s) == \A i, j \in DOMAIN s : i # j => s[i] # s[j]
PoolOK(P, explicit) == NoDup(P) /\ SeqSetA(P) \cap (Reserved \cup Wildcards \cup explicit) = {}

AInit(explicit) == a_explicit = explicit /\ a_pool = <<>> /\ a_idx = 0 /\ a_map = <<>> /\ a_warned = FALSE /\ a_built = FALSE
BuildPool(P) == /\ ~a_built /\ PoolOK(P, a_explicit)
                /\ a_pool' = P /\ a_built' = TRUE /\ UNCHANGED <<a_explicit, a_idx, a_map, a_warned>>
\* the next allocation: pool entry idx+1, wrapping to the first entry (with one warning) when exhausted
NextSignal == IF a_idx >= Len(a_pool) THEN a_pool[1] ELSE a_pool[a_idx + 1]
Allocate == /\ a_built /\ Len(a_pool) > 0
            /\ a_map' = Append(a_map, NextSignal)
            /\ a_idx' = IF a_idx >= Len(a_pool) THEN 1 ELSE a_idx + 1
            /\ a_warned' = (a_warned \/ a_idx >= Len(a_pool))
            /\ UNCHANGED <<a_explicit, a_pool, a_built>>

(* properties (C13, allocator part) *)
NotSpecial == \A i \in DOMAIN a_map : a_map[i] \notin Wildcards \cup Reserved
FreshVsExplicit == \A i \in DOMAIN a_map : a_map[i] \notin a_explicit
InjectiveUntilWrap == a_warned \/ NoDup(a_map)
=============================================================================
