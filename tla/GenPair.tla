------------------------------ MODULE GenPair ------------------------------
(***************************************************************************)
(* Generator specification for C12: pairs (P, Q) that share no variable,   *)
(* memory or entity but DO share explicit signal names and neighbouring    *)
(* tiles, x all interleavings that preserve each program's own order.      *)
(* Each record = (interleaved program, P alone) or (interleaved, Q alone). *)
(***************************************************************************)
EXTENDS Facto, FiniteSetsExt, SequencesExt, Json, IOUtils

RECURSIVE Merges(_, _)
Merges(s, t) == IF s = <<>> THEN {t} ELSE IF t = <<>> THEN {s}
                ELSE {<<Head(s)>> \o m : m \in Merges(Tail(s), t)} \cup {<<Head(t)>> \o m : m \in Merges(s, Tail(t))}
\* which program each statement of an interleaving came from (statements of P and Q are all distinct records)
Owners(m, pp) == [i \in DOMAIN m |-> IF \E j \in DOMAIN pp : pp[j] = m[i] THEN "P" ELSE "Q"]
Lamp(n, x, y) == SPlace(n, "small-lamp", Num(x), Num(y), <<>>)
Ps == <<
  <<SIn("a", "signal-A", 5), SIn("b", "signal-B", 2), SLet("Signal", "r", Bin("+", Bin("*", Ref("a"), Ref("b")), Num(1)))>>,
  <<SIn("a", "signal-A", 5), SLet("Signal", "t", Bin("+", Ref("a"), Num(1))), SLet("Signal", "r", Bin("*", Ref("t"), Ref("t")))>>,
  <<SIn("a", "signal-A", 5), Lamp("l", 0, 0), SProp("l", "enable", Bin(">", Ref("a"), Num(3)))>>,
  <<SIn("a", "signal-A", 5), SLet("Signal", "r", Bin("*", Ref("a"), Lit(TName("signal-K"), Num(2))))>>
>>
Qs == <<
  <<SIn("c", "signal-A", 3), SIn("d", "signal-B", 4), SLet("Signal", "s", Bin("-", Ref("c"), Ref("d")))>>,
  <<SIn("c", "signal-A", 3), SLet("Signal", "u", Bin("+", Ref("c"), Num(1))), SLet("Signal", "s", Bin("*", Ref("u"), Num(2)))>>,
  <<SIn("c", "signal-A", 3), SIn("d", "signal-B", 4), SLet("Bundle", "qb", BLit(<<Ref("c"), Ref("d")>>)), SLet("Bundle", "qs", Bin("*", Ref("qb"), Num(2)))>>,
  <<SIn("c", "signal-A", 3), Lamp("k", 1, 0), SProp("k", "enable", Bin("<", Ref("c"), Num(2)))>>,
  <<SIn("c", "signal-A", 3), SLet("Signal", "s", CondE(Bin(">", Ref("c"), Num(0)), Num(1))), SLet("Signal", "v", Bin(">", Ref("c"), Num(0)))>>,
  <<SIn("c", "signal-A", 3), SLet("Signal", "s", Bin("*", Ref("c"), Lit(TName("signal-K"), Num(2))))>>,
  <<SIn("c", "signal-A", 3), SLet("Signal", "k2", Lit(TName("signal-K"), Num(2))), SLet("Signal", "s", Bin("+", Bin("*", Ref("c"), Ref("k2")), Lit(TName("signal-A"), Num(5))))>>
>>
\* pairs whose entities are FAR apart (relay poles needed) and lie on neighbouring rows: each program is two chests and a lamp
\* 30 tiles away that takes its enable from one chest and a colour component from the other (two producers into one sink)
Chest(n, x, y) == SPlace(n, "steel-chest", Num(x), Num(y), <<>>)
FarProg(pre, row, d) == <<Chest(pre \o "a", 0, row), Chest(pre \o "b", 0, row + 2), Lamp(pre \o "l", d, row),
                          SProp(pre \o "l", "enable", Bin(">", Sel(EOut(pre \o "a"), "iron-plate"), Num(5))),
                          SProp(pre \o "l", "r", Sel(EOut(pre \o "b"), "copper-plate"))>>
FarCins(pre) == <<[ent |-> pre \o "a", item |-> "iron-plate"], [ent |-> pre \o "b", item |-> "copper-plate"]>>
FarRec(m, alone, side, d) == [grp |-> side, pi |-> 100 + d, qj |-> 0, stmts |-> m, src |-> Render(m), stmts2 |-> alone, src2 |-> Render(alone),
                              dom |-> <<0, 1>>, cins |-> FarCins("p") \o FarCins("q"), owner |-> Owners(m, FarProg("p", 0, d))]
\* a handful of interleavings (first / alternating / last) is enough here: the statements are the same kind
FarMerges(pp, qq) == {pp \o qq, qq \o pp, <<pp[1], qq[1], pp[2], qq[2], pp[3], qq[3], pp[4], qq[4], pp[5], qq[5]>>, <<qq[1], qq[2], pp[1], pp[2], pp[3], qq[3], qq[4], pp[4], pp[5], qq[5]>>}
FarAll == UNION {UNION {{FarRec(m, FarProg("p", 0, d), "P", d), FarRec(m, FarProg("q", 1, d), "Q", d)} : m \in FarMerges(FarProg("p", 0, d), FarProg("q", 1, d))} : d \in {14, 30}}
Rec(m, alone, side, i, j) == [grp |-> side, pi |-> i, qj |-> j, stmts |-> m, src |-> Render(m), stmts2 |-> alone, src2 |-> Render(alone), dom |-> <<-3, 0, 2, 3, 4>>,
                              owner |-> Owners(m, Ps[i])]
All == UNION {UNION {{Rec(m, Ps[i], "P", i, j), Rec(m, Qs[j], "Q", i, j)} : m \in Merges(Ps[i], Qs[j])} : i \in DOMAIN Ps, j \in DOMAIN Qs}
ASSUME PrintT(<<"NPROGS", Cardinality(All), Cardinality(FarAll)>>)
ASSUME JsonSerialize(IOEnv.GEN_OUT, SetToSeq(All) \o SetToSeq(FarAll))
=============================================================================
