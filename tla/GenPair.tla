------------------------------ MODULE GenPair ------------------------------
(***************************************************************************)
(* Generator specification for C12: pairs (P, Q) that share no variable,   *)
(* memory or entity but DO share explicit signal names and neighbouring    *)
(* tiles, x all interleavings that preserve each program's own order.      *)
(* Each record = (interleaved program, P alone) or (interleaved, Q alone). *)
(***************************************************************************)
EXTENDS Facto, FiniteSetsExt, SequencesExt, Json, IOUtils

RECURSIVE Merges(_, _)
Merges(s, t) == IF s = <<>> THEN {t} ELSE IF t = <<>> THEN {s}
                ELSE {<<Head(s)>> \o m : m \in Merges(Tail(s), t)} \cup {<<Head(t)>> \o m : m \in Merges(s, Tail(t))}
Lamp(n, x, y) == SPlace(n, "small-lamp", Num(x), Num(y), <<>>)
Ps == <<
  <<SIn("a", "signal-A", 5), SIn("b", "signal-B", 2), SLet("Signal", "r", Bin("+", Bin("*", Ref("a"), Ref("b")), Num(1)))>>,
  <<SIn("a", "signal-A", 5), SLet("Signal", "t", Bin("+", Ref("a"), Num(1))), SLet("Signal", "r", Bin("*", Ref("t"), Ref("t")))>>,
  <<SIn("a", "signal-A", 5), Lamp("l", 0, 0), SProp("l", "enable", Bin(">", Ref("a"), Num(3)))>>
>>
Qs == <<
  <<SIn("c", "signal-A", 3), SIn("d", "signal-B", 4), SLet("Signal", "s", Bin("-", Ref("c"), Ref("d")))>>,
  <<SIn("c", "signal-A", 3), SLet("Signal", "u", Bin("+", Ref("c"), Num(1))), SLet("Signal", "s", Bin("*", Ref("u"), Num(2)))>>,
  <<SIn("c", "signal-A", 3), SIn("d", "signal-B", 4), SLet("Bundle", "qb", BLit(<<Ref("c"), Ref("d")>>)), SLet("Bundle", "qs", Bin("*", Ref("qb"), Num(2)))>>,
  <<SIn("c", "signal-A", 3), Lamp("k", 1, 0), SProp("k", "enable", Bin("<", Ref("c"), Num(2)))>>,
  <<SIn("c", "signal-A", 3), SLet("Signal", "s", CondE(Bin(">", Ref("c"), Num(0)), Num(1))), SLet("Signal", "v", Bin(">", Ref("c"), Num(0)))>>
>>
Rec(m, alone, side, i, j) == [grp |-> side, pi |-> i, qj |-> j, stmts |-> m, src |-> Render(m), stmts2 |-> alone, src2 |-> Render(alone), dom |-> <<-3, 0, 2, 3, 4>>]
All == UNION {UNION {{Rec(m, Ps[i], "P", i, j), Rec(m, Qs[j], "Q", i, j)} : m \in Merges(Ps[i], Qs[j])} : i \in DOMAIN Ps, j \in DOMAIN Qs}
ASSUME PrintT(<<"NPROGS", Cardinality(All)>>)
ASSUME JsonSerialize(IOEnv.GEN_OUT, SetToSeq(All))
=============================================================================
