------------------------------- MODULE Facto -------------------------------
(***************************************************************************)
(* L2: the Facto source language as a specification.                       *)
(*   - abstract syntax (records, see DESIGN Appendix A)                    *)
(*   - concrete syntax: Render, minimal parentheses from the documented    *)
(*     precedence ladder, so the parser's precedence/associativity is      *)
(*     exercised by every generated program                                *)
(*   - dynamic semantics: a big-step interpreter Run(P, val, mem) that     *)
(*     executes the statements in order (loops iterate, calls substitute), *)
(*     yielding named values, entity conditions, placed entities and the   *)
(*     next abstract memory state                                          *)
(* All run-time AND compile-time arithmetic is Int32 (that is the content  *)
(* of C11).                                                                *)
(***************************************************************************)
EXTENDS Int32, Sequences, FiniteSets, TLC

(* ------------------------------ syntax --------------------------------- *)
Num(v)          == [k |-> "num", v |-> v]
NumB(v, base)   == [k |-> "num", v |-> v, base |-> base]
Ref(n)          == [k |-> "ref", n |-> n]
Bin(op, l, r)   == [k |-> "bin", op |-> op, l |-> l, r |-> r]
Un(op, e)       == [k |-> "un", op |-> op, e |-> e]
Proj(e, t)      == [k |-> "proj", e |-> e, t |-> t]          \* e | "t"     (t: type literal)
Lit(t, e)       == [k |-> "lit", t |-> t, e |-> e]           \* ("t", e)
CondE(c, v)     == [k |-> "cond", c |-> c, v |-> v]          \* c : v
ReadE(m)        == [k |-> "read", m |-> m]
BLit(es)        == [k |-> "blit", es |-> es]                 \* { e1, e2, ... }
Sel(b, t)       == [k |-> "sel", b |-> b, t |-> t]           \* b["t"]
AnyE(b)         == [k |-> "any", b |-> b]
AllE(b)         == [k |-> "all", b |-> b]
EOut(n)         == [k |-> "eout", n |-> n]                   \* entity.output
CallE(f, args)  == [k |-> "call", f |-> f, args |-> args]
\* type literals: a signal name, or the type of a variable (x.type)
TName(s) == [s |-> s]
TOf(x)   == [of |-> x]

SIn(n, t, dv)        == [k |-> "in", n |-> n, t |-> t, dv |-> dv]         \* Signal n = ("t", dv);   t = "" => Signal n = dv;
SInt(n, e)           == [k |-> "int", n |-> n, e |-> e]
SLet(ty, n, e)       == [k |-> "let", ty |-> ty, n |-> n, e |-> e]        \* ty: "Signal" | "Bundle"
SMem(n, t)           == [k |-> "mem", n |-> n, t |-> t]                   \* t = "" => untyped
SWrite(m, e, mode, a, b) == [k |-> "write", m |-> m, e |-> e, mode |-> mode, a |-> a, b |-> b]
SPlace(n, proto, x, y, props) == [k |-> "place", n |-> n, proto |-> proto, x |-> x, y |-> y, props |-> props]
SProp(ent, p, e)     == [k |-> "prop", ent |-> ent, p |-> p, e |-> e]
SFunc(n, params, body, ret) == [k |-> "func", n |-> n, params |-> params, body |-> body, ret |-> ret]
SFor(i, iter, body)  == [k |-> "for", i |-> i, iter |-> iter, body |-> body]
SImport(path)        == [k |-> "import", path |-> path]
SExpr(e)             == [k |-> "expr", e |-> e]
SRaw(text)           == [k |-> "raw", text |-> text]                       \* GenIll only: verbatim text
\* iterators
IRange(a, b, s) == [k |-> "range", a |-> a, b |-> b, s |-> s]    \* a, b, s: Num or Ref;  s = Num(0) means "no step clause"
IList(vs)       == [k |-> "list", vs |-> vs]

ArithOps == {"+", "-", "*", "/", "%", "**", "<<", ">>", "AND", "OR", "XOR"}
CmpOps   == {"==", "!=", "<", "<=", ">", ">="}
LogOps   == {"&&", "||"}
BinOps   == ArithOps \cup CmpOps \cup LogOps

(* ---------------------------- rendering -------------------------------- *)
\* LANGUAGE_SPEC precedence ladder, lowest to highest
Prec(op) == CASE op = "||" -> 1 [] op = "&&" -> 2 [] op = ":" -> 3 [] op \in CmpOps -> 4 [] op = "|" -> 5
   [] op = "OR" -> 6 [] op = "XOR" -> 7 [] op = "AND" -> 8 [] op \in {"<<", ">>"} -> 9
   [] op \in {"+", "-"} -> 10 [] op \in {"*", "/", "%"} -> 11 [] op = "**" -> 12
PUnary == 13
PPrimary == 14

HexDigit == <<"0","1","2","3","4","5","6","7","8","9","A","B","C","D","E","F">>
RECURSIVE Digits(_, _)
Digits(n, base) == IF n < base THEN HexDigit[n + 1] ELSE Digits(n \div base, base) \o HexDigit[(n % base) + 1]
RenderNum(e) ==
  LET base == IF "base" \in DOMAIN e THEN e.base ELSE 10 IN
  IF e.v < 0 THEN "(" \o ToString(e.v) \o ")"
  ELSE CASE base = 16 -> "0x" \o Digits(e.v, 16) [] base = 8 -> "0o" \o Digits(e.v, 8)
         [] base = 2 -> "0b" \o Digits(e.v, 2) [] OTHER -> ToString(e.v)
Q(s) == "\"" \o s \o "\""
RenderT(t) == IF "s" \in DOMAIN t THEN Q(t.s) ELSE t.of \o ".type"

RECURSIVE RenderE(_, _), RenderArgs(_, _)
Paren(s, p, ctx) == IF p < ctx THEN "(" \o s \o ")" ELSE s
\* ctx = minimal precedence level the surrounding syntax accepts at this position
RenderE(e, ctx) ==
  CASE e.k = "ref" -> e.n
    [] e.k = "num" -> RenderNum(e)
    [] e.k = "bin" -> LET p == Prec(e.op)
                          s == IF e.op = "**"
                               THEN RenderE(e.l, PUnary) \o " ** " \o RenderE(e.r, p)
                               ELSE RenderE(e.l, p) \o " " \o e.op \o " " \o RenderE(e.r, p + 1)
                      IN Paren(s, p, ctx)
    [] e.k = "un" -> Paren(e.op \o RenderE(e.e, PUnary), PUnary, ctx)
    [] e.k = "proj" -> Paren(RenderE(e.e, 5) \o " | " \o RenderT(e.t), 5, ctx)
    [] e.k = "lit" -> "(" \o RenderT(e.t) \o ", " \o RenderE(e.e, 0) \o ")"
    [] e.k = "cond" -> Paren(RenderE(e.c, 4) \o " : " \o RenderE(e.v, PPrimary), 3, ctx)
    [] e.k = "read" -> e.m \o ".read()"
    [] e.k = "blit" -> "{ " \o RenderArgs(e.es, 1) \o " }"
    [] e.k = "sel" -> RenderE(e.b, PPrimary) \o "[" \o Q(e.t) \o "]"
    [] e.k = "any" -> "any(" \o RenderE(e.b, 0) \o ")"
    [] e.k = "all" -> "all(" \o RenderE(e.b, 0) \o ")"
    [] e.k = "eout" -> e.n \o ".output"
    [] e.k = "call" -> e.f \o "(" \o RenderArgs(e.args, 1) \o ")"
RenderArgs(es, i) == IF i > Len(es) THEN "" ELSE RenderE(es[i], 0) \o (IF i < Len(es) THEN ", " ELSE "") \o RenderArgs(es, i + 1)

RenderBound(b) == IF b.k = "num" THEN (IF b.v < 0 THEN ToString(b.v) ELSE RenderNum(b)) ELSE b.n
RECURSIVE RenderNums(_, _)
RenderNums(vs, i) == IF i > Len(vs) THEN "" ELSE ToString(vs[i]) \o (IF i < Len(vs) THEN ", " ELSE "") \o RenderNums(vs, i + 1)
RenderIter(it) == IF it.k = "range"
                  THEN RenderBound(it.a) \o ".." \o RenderBound(it.b) \o (IF it.s.k = "num" /\ it.s.v = 0 THEN "" ELSE " step " \o RenderBound(it.s))
                  ELSE "[" \o RenderNums(it.vs, 1) \o "]"
RECURSIVE RenderProps(_, _), RenderParams(_, _)
RenderProps(ps, i) == IF i > Len(ps) THEN "" ELSE ps[i].k \o ": " \o RenderE(ps[i].v, 0) \o (IF i < Len(ps) THEN ", " ELSE "") \o RenderProps(ps, i + 1)
RenderParams(ps, i) == IF i > Len(ps) THEN "" ELSE ps[i].ty \o " " \o ps[i].n \o (IF i < Len(ps) THEN ", " ELSE "") \o RenderParams(ps, i + 1)

RECURSIVE RenderS(_, _), RenderBody(_, _, _)
\* one statement per line; ind = indentation
RenderS(s, ind) ==
  CASE s.k = "in" -> ind \o "Signal " \o s.n \o " = " \o (IF s.t = "" THEN RenderNum(Num(s.dv)) ELSE "(" \o Q(s.t) \o ", " \o ToString(s.dv) \o ")") \o ";\n"
    [] s.k = "int" -> ind \o "int " \o s.n \o " = " \o RenderE(s.e, 0) \o ";\n"
    [] s.k = "let" -> ind \o s.ty \o " " \o s.n \o " = " \o RenderE(s.e, 0) \o ";\n"
    [] s.k = "mem" -> ind \o "Memory " \o s.n \o (IF s.t = "" THEN "" ELSE ": " \o Q(s.t)) \o ";\n"
    [] s.k = "write" -> ind \o s.m \o ".write(" \o RenderE(s.e, 0) \o
          (CASE s.mode = "plain" -> ""
             [] s.mode = "when" -> ", when=" \o RenderE(s.a, 0)
             [] s.mode = "set_reset" -> ", set=" \o RenderE(s.a, 0) \o ", reset=" \o RenderE(s.b, 0)
             [] s.mode = "reset_set" -> ", reset=" \o RenderE(s.b, 0) \o ", set=" \o RenderE(s.a, 0)) \o ");\n"
    [] s.k = "place" -> ind \o "Entity " \o s.n \o " = place(" \o Q(s.proto) \o ", " \o RenderE(s.x, 0) \o ", " \o RenderE(s.y, 0)
          \o (IF Len(s.props) = 0 THEN "" ELSE ", {" \o RenderProps(s.props, 1) \o "}") \o ");\n"
    [] s.k = "prop" -> ind \o s.ent \o "." \o s.p \o " = " \o RenderE(s.e, 0) \o ";\n"
    [] s.k = "func" -> ind \o "func " \o s.n \o "(" \o RenderParams(s.params, 1) \o ") {\n" \o RenderBody(s.body, 1, ind \o "    ")
          \o (IF "k" \in DOMAIN s.ret THEN ind \o "    return " \o RenderE(s.ret, 0) \o ";\n" ELSE "") \o ind \o "}\n"
    [] s.k = "for" -> ind \o "for " \o s.i \o " in " \o RenderIter(s.iter) \o " {\n" \o RenderBody(s.body, 1, ind \o "    ") \o ind \o "}\n"
    [] s.k = "import" -> ind \o "import " \o Q(s.path) \o ";\n"
    [] s.k = "expr" -> ind \o RenderE(s.e, 0) \o ";\n"
    [] s.k = "raw" -> ind \o s.text \o "\n"
RenderBody(ss, i, ind) == IF i > Len(ss) THEN "" ELSE RenderS(ss[i], ind) \o RenderBody(ss, i + 1, ind)
Render(stmts) == RenderBody(stmts, 1, "")

\* number of text lines a statement occupies, and the 1-based line of top-level statement i
RECURSIVE LinesS(_), LinesB(_, _)
LinesS(s) == CASE s.k = "func" -> 2 + LinesB(s.body, 1) + (IF "k" \in DOMAIN s.ret THEN 1 ELSE 0)
               [] s.k = "for" -> 2 + LinesB(s.body, 1)
               [] OTHER -> 1
LinesB(ss, i) == IF i > Len(ss) THEN 0 ELSE LinesS(ss[i]) + LinesB(ss, i + 1)
LineOf(stmts, i) == 1 + LinesB(SubSeq(stmts, 1, i - 1), 1)

(* ------------------------------ values --------------------------------- *)
(* Every value is a record of one shape (TLC equality is typed):           *)
(*   kind "int" : compile-time integer v                                   *)
(*   kind "sig" : signal of type t carrying v; free = the language does    *)
(*                not determine t (compiler-chosen), t is then a token     *)
(*   kind "bun" : bundle b : [type -> Int32] (zero members included, they  *)
(*                are dropped when bags are compared)                      *)
(*   kind "ent" : placed entity, v = index into the entity list            *)
(*   kind "mem" : memory cell, t = declared type, v = instance number      *)
(*   kind "fun" : function, v = index of the declaring statement           *)
(***************************************************************************)
VInt(v)          == [kind |-> "int", t |-> "", free |-> FALSE, v |-> v, b |-> <<>>]
VSig(t, free, v) == [kind |-> "sig", t |-> t, free |-> free, v |-> v, b |-> <<>>]
VBun(b)          == [kind |-> "bun", t |-> "", free |-> FALSE, v |-> 0, b |-> b]
VEnt(i)          == [kind |-> "ent", t |-> "", free |-> FALSE, v |-> i, b |-> <<>>]
VMem(t, free, i) == [kind |-> "mem", t |-> t, free |-> free, v |-> i, b |-> <<>>]
VErr(why)        == [kind |-> "err", t |-> why, free |-> FALSE, v |-> 0, b |-> <<>>]
Bool(x) == IF x THEN 1 ELSE 0
IsVirtual(t) == t \in {"signal-A","signal-B","signal-C","signal-D","signal-E","signal-F","signal-G","signal-H","signal-I","signal-J",
   "signal-K","signal-L","signal-M","signal-N","signal-O","signal-P","signal-Q","signal-R","signal-S","signal-T","signal-U","signal-V",
   "signal-W","signal-X","signal-Y","signal-Z","signal-0","signal-1","signal-2","signal-3","signal-4","signal-5","signal-6","signal-7",
   "signal-8","signal-9","signal-red","signal-green","signal-blue","signal-yellow","signal-pink","signal-cyan","signal-white",
   "signal-grey","signal-black","signal-check","signal-info","signal-dot"}

ArithV(op, a, b) == Op32(IF op = "**" THEN "^" ELSE op, a, b)
ArithDef(op, a, b) == OpDefined(IF op = "**" THEN "^" ELSE op, a, b)
CmpV(op, a, b) == CASE op = "==" -> a = b [] op = "!=" -> a # b [] op = "<" -> a < b [] op = "<=" -> a <= b
                    [] op = ">" -> a > b [] op = ">=" -> a >= b

\* bundle helpers: bundles are functions over a finite set of type names
BunDom(b) == DOMAIN b
BunGet(b, t) == IF t \in DOMAIN b THEN b[t] ELSE 0
BunMerge(a, b) == [t \in (DOMAIN a) \cup (DOMAIN b) |-> Add32(BunGet(a, t), BunGet(b, t))]
BunNZ(b) == {t \in DOMAIN b : b[t] # 0}

(* --------------------------- interpreter ------------------------------- *)
(* World: what executing statements produces.                              *)
(*   env   : name -> value              (innermost scope wins: one map,    *)
(*           scopes are handled by restoring the map after a block)        *)
(*   val   : input name -> Int32        run-time value of declared inputs  *)
(*   cont  : entity name -> bundle      contents reported by read entities *)
(*   mem   : cell instance -> [on, v]   abstract memory state (read side)  *)
(*   memN  : next abstract memory state (written side)                     *)
(*   ents  : sequence of placed entities [n, proto, x, y, props, en]       *)
(*   undef : TRUE once an operation hit a corner excluded by DESIGN 5.4    *)
(*   ncell : number of cell instances created so far                       *)
(***************************************************************************)
\* abstract memory: cell instance number -> [v: value read from the cell, on: latch state]
ZeroCell == [v |-> 0, on |-> FALSE]
MemGet(mem, i) == IF i \in DOMAIN mem THEN mem[i] ELSE ZeroCell

RECURSIVE EvalE(_, _)
TypeOfLit(t, w) == IF "s" \in DOMAIN t THEN [t |-> t.s, free |-> FALSE]
                   ELSE LET x == w.env[t.of] IN [t |-> x.t, free |-> x.free]

\* result of a binary operator on two evaluated operands
BinVal(op, a, b) ==
  LET val == IF op \in ArithOps THEN ArithV(op, a.v, b.v)
             ELSE IF op \in CmpOps THEN Bool(CmpV(op, a.v, b.v))
             ELSE IF op = "&&" THEN Bool(a.v # 0 /\ b.v # 0) ELSE Bool(a.v # 0 \/ b.v # 0)
  IN IF a.kind = "int" /\ b.kind = "int" THEN VInt(val)
     ELSE IF op \in ArithOps
          THEN (IF a.kind = "sig" THEN VSig(a.t, a.free, val) ELSE VSig(b.t, b.free, val))
     ELSE IF op \in CmpOps /\ a.kind = "sig" /\ ~a.free /\ IsVirtual(a.t) THEN VSig(a.t, FALSE, val)
     ELSE VSig("?", TRUE, val)

\* bundle OP scalar, member-wise over the non-zero members
BunOp(op, bun, sc) == VBun([t \in DOMAIN bun.b |-> IF bun.b[t] = 0 THEN 0 ELSE ArithV(op, bun.b[t], sc.v)])
BunOpDef(op, bun, sc) == \A t \in DOMAIN bun.b : bun.b[t] = 0 \/ ArithDef(op, bun.b[t], sc.v)

EvalE(e, w) ==
  CASE e.k = "num" -> VInt(e.v)
    [] e.k = "ref" -> w.env[e.n]
    [] e.k = "bin" /\ e.op \in CmpOps /\ e.l.k \in {"any", "all"} ->
         \* any(b) CMP x / all(b) CMP x : existential / universal over the non-zero members
         LET bun == EvalE(e.l.b, w)  x == EvalE(e.r, w) IN
         IF bun.kind = "err" THEN bun ELSE IF x.kind = "err" THEN x
         ELSE IF e.l.k = "any" THEN VSig("?", TRUE, Bool(\E t \in BunNZ(bun.b) : CmpV(e.op, bun.b[t], x.v)))
         ELSE VSig("?", TRUE, Bool(\A t \in BunNZ(bun.b) : CmpV(e.op, bun.b[t], x.v)))
    [] e.k = "bin" /\ ~(e.op \in CmpOps /\ e.l.k \in {"any", "all"}) ->
         LET a == EvalE(e.l, w)  b == EvalE(e.r, w) IN
         IF a.kind = "err" THEN a ELSE IF b.kind = "err" THEN b
         ELSE IF a.kind = "bun" /\ e.op \in ArithOps
              THEN (IF BunOpDef(e.op, a, b) THEN BunOp(e.op, a, b) ELSE VErr("undef"))
         ELSE IF e.op \in ArithOps /\ ~ArithDef(e.op, a.v, b.v) THEN VErr("undef")
         ELSE BinVal(e.op, a, b)
    [] e.k = "un" ->
         LET a == EvalE(e.e, w) IN
         IF a.kind = "err" THEN a
         ELSE IF e.op = "-" THEN (IF a.kind = "int" THEN VInt(Neg32(a.v)) ELSE VSig(a.t, a.free, Neg32(a.v)))
         ELSE IF e.op = "+" THEN a
         ELSE (IF a.kind = "int" THEN VInt(Bool(a.v = 0)) ELSE VSig("?", TRUE, Bool(a.v = 0)))
    [] e.k = "proj" ->
         LET a == EvalE(e.e, w)  ty == TypeOfLit(e.t, w) IN
         IF a.kind = "err" THEN a
         ELSE IF a.kind = "bun" THEN VSig(ty.t, ty.free, BunGet(a.b, ty.t))
         ELSE VSig(ty.t, ty.free, a.v)
    [] e.k = "lit" ->
         LET a == EvalE(e.e, w)  ty == TypeOfLit(e.t, w) IN
         IF a.kind = "err" THEN a ELSE VSig(ty.t, ty.free, a.v)
    [] e.k = "cond" ->
         \* scalar condition: c : v   /  bundle filter: (bundle CMP x) : v
         IF e.c.k = "bin" /\ e.c.op \in CmpOps /\ EvalE(e.c.l, w).kind = "bun"
         THEN LET bun == EvalE(e.c.l, w)  x == EvalE(e.c.r, w)  ov == EvalE(e.v, w) IN
              IF x.kind = "err" THEN x ELSE IF ov.kind = "err" THEN ov
              ELSE VBun([t \in DOMAIN bun.b |->
                     IF bun.b[t] # 0 /\ CmpV(e.c.op, bun.b[t], x.v)
                     THEN (IF ov.kind = "bun" THEN bun.b[t] ELSE ov.v) ELSE 0])
         ELSE LET c == EvalE(e.c, w)  v == EvalE(e.v, w) IN
              IF c.kind = "err" THEN c ELSE IF v.kind = "err" THEN v
              ELSE IF v.kind = "bun" THEN VBun([t \in DOMAIN v.b |-> IF c.v # 0 THEN v.b[t] ELSE 0])
              ELSE IF v.kind = "int" THEN VSig("?", TRUE, IF c.v # 0 THEN v.v ELSE 0)
              ELSE VSig(v.t, v.free, IF c.v # 0 THEN v.v ELSE 0)
    [] e.k = "blit" ->
         LET vs == [i \in DOMAIN e.es |-> EvalE(e.es[i], w)]
             asB(x) == IF x.kind = "bun" THEN x.b ELSE (x.t :> x.v)
             F[i \in 0..Len(vs)] == IF i = 0 THEN <<>> ELSE BunMerge(F[i-1], asB(vs[i]))
         IN IF \E i \in DOMAIN vs : vs[i].kind = "err" THEN VErr("undef") ELSE VBun(F[Len(vs)])
    [] e.k = "sel" -> LET a == EvalE(e.b, w) IN IF a.kind = "err" THEN a ELSE VSig(e.t, FALSE, BunGet(a.b, e.t))
    [] e.k = "eout" -> VBun(w.cont[e.n])
    [] e.k = "read" -> LET m == w.env[e.m] IN VSig(m.t, m.free, MemGet(w.mem, m.v).v)
    [] e.k = "any" -> VErr("bare-any")
    [] e.k = "all" -> VErr("bare-all")

Eval(e, w) == EvalE(e, w)


(* ------------------------ statement interpreter ------------------------ *)
(* World: what executing statements produces.                              *)
(*   env     name -> value (one map; scopes = restore the map after block) *)
(*   val     input name -> Int32: run-time value of declared inputs        *)
(*   cont    entity name -> bundle: contents reported by read entities     *)
(*   mem     cell instance -> [v, on]: abstract memory state (read side)   *)
(*   memN    next abstract memory state (written side)                     *)
(*   info    cell instance -> what its write evaluated to in this run      *)
(*   ents    placed entities [n, proto, x, y, props], in placement order   *)
(*   enables <<[ent, v]>>: value assigned to entity.enable                  *)
(*   named   top-level named results; order = declaration order            *)
(*   undef   an operation hit a corner excluded by DESIGN 5.4              *)
(*   ncell   number of cell instances created so far                       *)
(*   funs    function name -> declaring statement                          *)
(***************************************************************************)
EmptyWorld(val, cont, mem) ==
  [env |-> <<>>, val |-> val, cont |-> cont, mem |-> mem, memN |-> <<>>, info |-> <<>>, ents |-> <<>>, enables |-> <<>>,
   named |-> <<>>, order |-> <<>>, undef |-> FALSE, ncell |-> 0, funs |-> <<>>, ret |-> VInt(0), files |-> <<>>, done |-> {}, decl |-> <<>>]
Bind(env, n, v) == (n :> v) @@ env      \* @@ prefers the left operand: inner definitions shadow
SetEnv(w, n, v) == [w EXCEPT !.env = Bind(w.env, n, v)]
MarkUndef(w, v) == IF v.kind = "err" THEN [w EXCEPT !.undef = TRUE] ELSE w
\* top-level named results: name -> value, in declaration order
Name(w, n, v, top) == IF top THEN [w EXCEPT !.named = Bind(w.named, n, v), !.order = Append(w.order, n)] ELSE w
ValOr0(v) == IF v.kind = "err" THEN 0 ELSE v.v

\* iteration values of a for loop; bounds are Num or Ref (int variables)
BoundVal(b, w) == IF b.k = "num" THEN b.v ELSE w.env[b.n].v
RECURSIVE RangeVals(_, _, _, _)
RangeVals(i, stop, step, fuel) ==
  IF fuel = 0 \/ (step > 0 /\ i >= stop) \/ (step < 0 /\ i <= stop) THEN <<>>
  ELSE <<i>> \o RangeVals(i + step, stop, step, fuel - 1)
IterVals(it, w) ==
  IF it.k = "list" THEN it.vs
  ELSE LET a == BoundVal(it.a, w)  b == BoundVal(it.b, w)
           s0 == BoundVal(it.s, w)
           s == IF it.s.k = "num" /\ s0 = 0 THEN 1 ELSE s0     \* LANGUAGE_SPEC: "step: optional increment/decrement (default: 1)"
       IN IF s = 0 THEN <<>> ELSE RangeVals(a, b, s, 2000)

\* abstract effect of one write on its cell, given the values it evaluated to
\*   plain / when : gated cell  cell' = IF c > 0 THEN v ELSE cell      (plain: c = 1)
\*   latch        : state machine over (set, reset) with the priority named first in the call
LatchNext(mode, on, sa, ra) ==
  IF sa /\ ra THEN (mode = "set_reset") ELSE IF sa THEN TRUE ELSE IF ra THEN FALSE ELSE on
WriteCell(w, s, cell) ==
  LET v == Eval(s.e, w)
      old == MemGet(w.mem, cell)
  IN IF s.mode \in {"plain", "when"}
     THEN LET c == IF s.mode = "plain" THEN VInt(1) ELSE Eval(s.a, w)
              nv == IF ValOr0(c) > 0 THEN ValOr0(v) ELSE old.v
          IN [w EXCEPT !.memN = (cell :> [v |-> nv, on |-> FALSE]) @@ w.memN,
                       !.info = (cell :> [mode |-> s.mode, c |-> ValOr0(c), v |-> ValOr0(v), sa |-> FALSE, ra |-> FALSE]) @@ w.info,
                       !.undef = w.undef \/ v.kind = "err" \/ c.kind = "err"]
     ELSE LET sv == Eval(s.a, w)  rv == Eval(s.b, w)
              sa == ValOr0(sv) # 0  ra == ValOr0(rv) # 0
              on == LatchNext(s.mode, old.on, sa, ra)
          IN [w EXCEPT !.memN = (cell :> [v |-> IF on THEN ValOr0(v) ELSE 0, on |-> on]) @@ w.memN,
                       !.info = (cell :> [mode |-> s.mode, c |-> 0, v |-> ValOr0(v), sa |-> sa, ra |-> ra]) @@ w.info,
                       !.undef = w.undef \/ v.kind = "err" \/ sv.kind = "err" \/ rv.kind = "err"]

(* bundled math library (lib/math.facto): the DOCUMENTED mathematical definitions, for arguments for which the documented   *)
(* formula does not overflow (otherwise VErr: the valuation is skipped).  Results are compiler-typed (free).                *)
LibNames == {"abs", "sign", "min", "max", "clamp", "lerp", "between", "get_bit", "set_bit", "clear_bit", "toggle_bit", "div_floor", "mod_positive"}
LibInR(x) == x >= -2147483647 /\ x <= 2147483647       \* strictly inside int32 (so that negation is exact)
Small(x) == x > -30000 /\ x < 30000
LibVal(f, a) ==
  LET x == a[1].v
      y == IF Len(a) >= 2 THEN a[2].v ELSE 0
      z == IF Len(a) >= 3 THEN a[3].v ELSE 0
      ok(c, v) == IF c THEN VSig("?", TRUE, v) ELSE VErr("lib-domain")
      absx(q) == IF q < 0 THEN -q ELSE q
      pos == y >= 0 /\ y <= 30
  IN CASE f = "abs" -> ok(LibInR(x), absx(x))
       [] f = "sign" -> ok(TRUE, IF x > 0 THEN 1 ELSE IF x < 0 THEN -1 ELSE 0)
       [] f = "min" -> ok(TRUE, IF x <= y THEN x ELSE y)
       [] f = "max" -> ok(TRUE, IF x >= y THEN x ELSE y)
       [] f = "clamp" -> ok(y <= z, IF x < y THEN y ELSE IF x > z THEN z ELSE x)
       [] f = "lerp" -> ok(Small(x) /\ Small(y) /\ Small(z), x + Div32((y - x) * z, 100))
       [] f = "between" -> ok(TRUE, IF x >= y /\ x <= z THEN 1 ELSE 0)
       [] f = "get_bit" -> ok(pos, And32(Shr32(x, y), 1))
       [] f = "set_bit" -> ok(pos, Or32(x, Shl32(1, y)))
       [] f = "clear_bit" -> ok(pos, And32(x, Xor32(-1, Shl32(1, y))))
       [] f = "toggle_bit" -> ok(pos, Xor32(x, Shl32(1, y)))
       [] f = "div_floor" -> ok(y # 0 /\ LibInR(x) /\ LibInR(y), x \div y)              \* TLA+ \div is floor division
       [] f = "mod_positive" -> ok(y # 0 /\ LibInR(x) /\ LibInR(y), x % absx(y))        \* in 0 .. |y| - 1

RECURSIVE Exec(_, _, _, _), ExecS(_, _, _), ExecLoop(_, _, _, _), ExecCall(_, _)
\* a call: body executed in a scope that holds only the functions and the parameters; effects on the world persist,
\* the caller's names are restored afterwards; w.ret carries the returned value
BindParams(ps, args, i, env, w) ==
  LET F[k \in 0..Len(ps)] == IF k = 0 THEN env ELSE
        LET a == Eval(args[k], w)
            v == IF ps[k].ty = "int" THEN VInt(ValOr0(a))
                 ELSE IF ps[k].ty = "Signal" /\ a.kind = "int" THEN VSig("?", TRUE, a.v) ELSE a
        IN Bind(F[k-1], ps[k].n, v)
  IN F[Len(ps)]
ExecCall(e, w) ==
  IF e.f \notin DOMAIN w.funs /\ e.f \in LibNames
  THEN LET args == [i \in DOMAIN e.args |-> Eval(e.args[i], w)]
           rv == IF \E i \in DOMAIN args : args[i].kind = "err" THEN VErr("undef") ELSE LibVal(e.f, args)
       IN [w EXCEPT !.ret = rv, !.undef = w.undef \/ rv.kind = "err"]
  ELSE
  LET f == w.funs[e.f]
      inner == [w EXCEPT !.env = BindParams(f.params, e.args, 1, <<>>, w)]
      after == Exec(f.body, 1, inner, FALSE)
      rv == IF "k" \in DOMAIN f.ret THEN Eval(f.ret, after) ELSE VInt(0)
  IN [after EXCEPT !.env = w.env, !.ret = rv, !.undef = after.undef \/ rv.kind = "err"]
ExecLoop(s, vals, i, w) ==
  IF i > Len(vals) THEN w
  ELSE LET inner == SetEnv(w, s.i, VInt(vals[i]))
           after == Exec(s.body, 1, inner, FALSE)
       IN ExecLoop(s, vals, i + 1, [after EXCEPT !.env = w.env])
ExecS(s, w, top) ==
  CASE s.k = "in" -> LET v == VSig(IF s.t = "" THEN "?" ELSE s.t, s.t = "", w.val[s.n]) IN [SetEnv(w, s.n, v) EXCEPT !.decl = (s.n :> s.dv) @@ w.decl]
    [] s.k = "int" -> LET v == Eval(s.e, w) IN MarkUndef(SetEnv(w, s.n, IF v.kind = "err" THEN v ELSE VInt(v.v)), v)
    [] s.k = "let" ->
         IF s.e.k = "call"
         THEN LET w2 == ExecCall(s.e, w)
                  v == IF w2.ret.kind = "int" THEN VSig("?", TRUE, w2.ret.v) ELSE w2.ret
              IN Name(SetEnv(w2, s.n, v), s.n, v, top)
         ELSE LET v0 == Eval(s.e, w)
                  \* `Signal x = <int expr>` makes a signal of compiler-chosen type
                  v == IF v0.kind = "int" THEN VSig("?", TRUE, v0.v) ELSE v0
              IN MarkUndef(Name(SetEnv(w, s.n, v), s.n, v, top), v)
    [] s.k = "expr" -> IF s.e.k = "call" THEN ExecCall(s.e, w) ELSE MarkUndef(w, Eval(s.e, w))
    [] s.k = "mem" -> LET cell == w.ncell + 1 IN
                      [SetEnv(w, s.n, VMem(IF s.t = "" THEN "?" ELSE s.t, s.t = "", cell)) EXCEPT !.ncell = cell]
    [] s.k = "write" -> WriteCell(w, s, w.env[s.m].v)
    [] s.k = "place" -> LET \* a coordinate is a compile-time constant: a declared signal constant contributes its declared value
                            cw == [w EXCEPT !.val = w.decl @@ w.val]
                            x == Eval(s.x, [cw EXCEPT !.env = [n \in DOMAIN w.env |-> IF n \in DOMAIN w.decl THEN [w.env[n] EXCEPT !.v = w.decl[n]] ELSE w.env[n]]])
                            y == Eval(s.y, [cw EXCEPT !.env = [n \in DOMAIN w.env |-> IF n \in DOMAIN w.decl THEN [w.env[n] EXCEPT !.v = w.decl[n]] ELSE w.env[n]]])
                            ent == [n |-> s.n, proto |-> s.proto, x |-> ValOr0(x), y |-> ValOr0(y), props |-> s.props]
                        IN [SetEnv(w, s.n, VEnt(Len(w.ents) + 1)) EXCEPT !.ents = Append(w.ents, ent),
                                                                        !.undef = w.undef \/ x.kind = "err" \/ y.kind = "err"]
    [] s.k = "prop" -> LET v == Eval(s.e, w) IN
                       IF s.p = "enable" THEN [w EXCEPT !.enables = Append(w.enables, [ent |-> w.env[s.ent].v, v |-> ValOr0(v)]),
                                                        !.undef = w.undef \/ v.kind = "err"]
                       ELSE w
    [] s.k = "func" -> [w EXCEPT !.funs = (s.n :> s) @@ w.funs]
    [] s.k = "for" -> ExecLoop(s, IterVals(s.iter, w), 1, w)
    \* import "f": the file's text stands in its place ONCE (a second import of the same file, also through a cycle, adds nothing)
    [] s.k = "import" -> IF s.path \in w.done \/ s.path \notin DOMAIN w.files THEN w
                         ELSE Exec(w.files[s.path], 1, [w EXCEPT !.done = w.done \cup {s.path}], top)
    [] OTHER -> w
Exec(ss, i, w, top) == IF i > Len(ss) THEN w ELSE Exec(ss, i + 1, ExecS(ss[i], w, top), top)
Run(stmts, val, cont, mem) == Exec(stmts, 1, EmptyWorld(val, cont, mem), TRUE)
RunF(stmts, files, val, cont, mem) == Exec(stmts, 1, [EmptyWorld(val, cont, mem) EXCEPT !.files = files], TRUE)

\* Paste: the program with every import replaced by the file's statements (first occurrence; later ones vanish)
RECURSIVE PasteB(_, _, _)
PasteB(ss, files, done) ==
  IF ss = <<>> THEN [out |-> <<>>, done |-> done]
  ELSE LET s == Head(ss) IN
       IF s.k = "import" /\ s.path \in DOMAIN files /\ s.path \notin done
       THEN LET inner == PasteB(files[s.path], files, done \cup {s.path})
                rest == PasteB(Tail(ss), files, inner.done)
            IN [out |-> inner.out \o rest.out, done |-> rest.done]
       ELSE IF s.k = "import" THEN PasteB(Tail(ss), files, done)
       ELSE LET rest == PasteB(Tail(ss), files, done) IN [out |-> <<s>> \o rest.out, done |-> rest.done]
Paste(stmts, files) == PasteB(stmts, files, {}).out

(* ---------------------- explicit signal names (C13) ---------------------- *)
\* signal names written in the program text
RECURSIVE SigsE(_)
TS(t) == IF "s" \in DOMAIN t THEN {t.s} ELSE {}
SigsE(e) == CASE e.k = "bin" -> SigsE(e.l) \cup SigsE(e.r)
              [] e.k = "un" -> SigsE(e.e)
              [] e.k \in {"proj", "lit"} -> SigsE(e.e) \cup TS(e.t)
              [] e.k = "cond" -> SigsE(e.c) \cup SigsE(e.v)
              [] e.k = "blit" -> UNION {SigsE(e.es[i]) : i \in DOMAIN e.es}
              [] e.k = "sel" -> SigsE(e.b) \cup {e.t}
              [] e.k \in {"any", "all"} -> SigsE(e.b)
              [] e.k = "call" -> UNION {SigsE(e.args[i]) : i \in DOMAIN e.args}
              [] OTHER -> {}
RECURSIVE SigsS(_)
SigsS(s) == CASE s.k = "in" -> IF s.t = "" THEN {} ELSE {s.t}
              [] s.k \in {"int", "let", "expr", "prop"} -> SigsE(s.e)
              [] s.k = "mem" -> IF s.t = "" THEN {} ELSE {s.t}
              [] s.k = "write" -> SigsE(s.e) \cup SigsE(s.a) \cup SigsE(s.b)
              [] s.k \in {"func", "for"} -> UNION {SigsS(s.body[i]) : i \in DOMAIN s.body}
              [] OTHER -> {}
ExplicitOf(ss) == UNION {SigsS(ss[i]) : i \in DOMAIN ss}


(* ------------------------- twin transformations ------------------------- *)
(* "its unrolling" and "the manually inlined twin" have ONE formal meaning: *)
(* syntactic substitution with locals renamed apart.                        *)
RECURSIVE SubstE(_, _, _)
\* replace references: rn : name -> name (renaming), sv : name -> expression (parameter / iterator binding)
RnT(t, rn) == IF "of" \in DOMAIN t /\ t.of \in DOMAIN rn THEN [of |-> rn[t.of]] ELSE t
SubstE(e, rn, sv) ==
  CASE e.k = "ref" -> IF e.n \in DOMAIN sv THEN sv[e.n] ELSE IF e.n \in DOMAIN rn THEN [e EXCEPT !.n = rn[e.n]] ELSE e
    [] e.k = "bin" -> [e EXCEPT !.l = SubstE(e.l, rn, sv), !.r = SubstE(e.r, rn, sv)]
    [] e.k = "un" -> [e EXCEPT !.e = SubstE(e.e, rn, sv)]
    [] e.k \in {"proj", "lit"} -> [e EXCEPT !.e = SubstE(e.e, rn, sv), !.t = RnT(e.t, rn)]
    [] e.k = "cond" -> [e EXCEPT !.c = SubstE(e.c, rn, sv), !.v = SubstE(e.v, rn, sv)]
    [] e.k = "read" -> IF e.m \in DOMAIN rn THEN [e EXCEPT !.m = rn[e.m]] ELSE e
    [] e.k = "blit" -> [e EXCEPT !.es = [i \in DOMAIN e.es |-> SubstE(e.es[i], rn, sv)]]
    [] e.k \in {"sel", "any", "all"} -> [e EXCEPT !.b = SubstE(e.b, rn, sv)]
    [] e.k = "eout" -> IF e.n \in DOMAIN rn THEN [e EXCEPT !.n = rn[e.n]] ELSE e
    [] e.k = "call" -> [e EXCEPT !.args = [i \in DOMAIN e.args |-> SubstE(e.args[i], rn, sv)]]
    [] OTHER -> e
Rn(n, rn) == IF n \in DOMAIN rn THEN rn[n] ELSE n
\* bounds of a range may only be numbers or names: a substituted iterator/parameter must be a literal there
SubstB(b, rn, sv) == IF b.k = "ref" /\ b.n \in DOMAIN sv THEN sv[b.n] ELSE IF b.k = "ref" THEN Ref(Rn(b.n, rn)) ELSE b
RECURSIVE SubstS(_, _, _)
SubstS(s, rn, sv) ==
  CASE s.k \in {"int", "let"} -> [s EXCEPT !.n = Rn(s.n, rn), !.e = SubstE(s.e, rn, sv)]
    [] s.k = "expr" -> [s EXCEPT !.e = SubstE(s.e, rn, sv)]
    [] s.k = "mem" -> [s EXCEPT !.n = Rn(s.n, rn)]
    [] s.k = "write" -> [s EXCEPT !.m = Rn(s.m, rn), !.e = SubstE(s.e, rn, sv), !.a = SubstE(s.a, rn, sv), !.b = SubstE(s.b, rn, sv)]
    [] s.k = "place" -> [s EXCEPT !.n = Rn(s.n, rn), !.x = SubstE(s.x, rn, sv), !.y = SubstE(s.y, rn, sv)]
    [] s.k = "prop" -> [s EXCEPT !.ent = IF s.ent \in DOMAIN sv /\ sv[s.ent].k = "ref" THEN sv[s.ent].n ELSE Rn(s.ent, rn), !.e = SubstE(s.e, rn, sv)]
    [] s.k = "for" -> [s EXCEPT !.body = [i \in DOMAIN s.body |-> SubstS(s.body[i], rn, sv)],
                                !.iter = IF s.iter.k = "range" THEN [s.iter EXCEPT !.a = SubstB(s.iter.a, rn, sv), !.b = SubstB(s.iter.b, rn, sv), !.s = SubstB(s.iter.s, rn, sv)] ELSE s.iter]
    [] OTHER -> s
\* names a block declares (its locals)
Declared(ss) == {ss[i].n : i \in {i \in DOMAIN ss : ss[i].k \in {"int", "let", "mem", "place"}}}
Suffix(names, suf) == [n \in names |-> n \o suf]

\* top-level int constants with literal values (bounds given by int variables)
IntConst(ss, n) == LET I == {i \in DOMAIN ss : ss[i].k = "int" /\ ss[i].n = n /\ ss[i].e.k = "num"} IN
                   IF I = {} THEN 0 ELSE ss[CHOOSE i \in I : TRUE].e.v
\* locals renamed apart, SEQUENTIALLY: an occurrence of a name before the statement that declares it locally still means the
\* outer binding (and the right-hand side of `Signal x = x + 1` reads the outer x); a binding in sv (iterator / parameter) is
\* hidden by a local declaration of the same name from that statement on
RenameSeq(ss, suf, sv0) ==
  LET F[j \in 0..Len(ss)] ==
        IF j = 0 THEN [out |-> <<>>, rn |-> <<>>, sv |-> sv0]
        ELSE LET prev == F[j-1]  st == ss[j]
                 decl == st.k \in {"int", "let", "mem", "place"}
                 body == SubstS(st, prev.rn, prev.sv)
                 named == IF decl THEN [body EXCEPT !.n = st.n \o suf] ELSE body
             IN [out |-> Append(prev.out, named),
                 rn |-> IF decl THEN (st.n :> (st.n \o suf)) @@ prev.rn ELSE prev.rn,
                 sv |-> IF decl THEN [n \in (DOMAIN prev.sv) \ {st.n} |-> prev.sv[n]] ELSE prev.sv]
  IN F[Len(ss)].out
RECURSIVE UnrollS(_, _, _), UnrollB(_, _, _)
\* Unroll: every loop replaced by copies of its body, iterator substituted, locals renamed apart (suffix _<depth>_<k>)
UnrollB(ss, top, tag) == LET G[i \in 0..Len(ss)] == IF i = 0 THEN <<>> ELSE G[i-1] \o UnrollS(ss[i], top, tag \o "_" \o ToString(i)) IN G[Len(ss)]
UnrollS(s, top, tag) ==
  IF s.k # "for" THEN <<s>>
  ELSE LET bv(b) == IF b.k = "num" THEN b.v ELSE IntConst(top, b.n)
           vals == IF s.iter.k = "list" THEN s.iter.vs
                   ELSE LET st == bv(s.iter.s) IN RangeVals(bv(s.iter.a), bv(s.iter.b), IF st = 0 THEN 1 ELSE st, 2000)
           copy(k) == LET suf == tag \o "_" \o ToString(k)
                          body == RenameSeq(s.body, suf, (s.i :> Num(vals[k])))
                      IN UnrollB(body, top, suf)
           F[k \in 0..Len(vals)] == IF k = 0 THEN <<>> ELSE F[k-1] \o copy(k)
       IN F[Len(vals)]
Unroll(stmts) == UnrollB(stmts, stmts, "_u")

\* Inline: every statement-level call replaced by the body with parameters bound to the arguments,
\* locals renamed apart and the return expression in place of the call
FuncOf(ss, f) == ss[CHOOSE i \in DOMAIN ss : ss[i].k = "func" /\ ss[i].n = f]
RECURSIVE InlineS(_, _, _, _), InlineB(_, _, _)
InlineB(ss, top, tag) ==
  LET F[i \in 0..Len(ss)] == IF i = 0 THEN <<>> ELSE F[i-1] \o InlineS(ss[i], top, tag \o "_" \o ToString(i), i) IN F[Len(ss)]
InlineCall(call, top, tag) ==
  LET f == FuncOf(top, call.f)
      rn == Suffix(Declared(f.body), tag)
      sv == [n \in {f.params[j].n : j \in DOMAIN f.params} |-> call.args[CHOOSE j \in DOMAIN f.params : f.params[j].n = n]]
      body == RenameSeq(f.body, tag, sv)
  IN [stmts |-> InlineB(body, top, tag), ret |-> IF "k" \in DOMAIN f.ret THEN SubstE(f.ret, rn, sv) ELSE Num(0)]
InlineS(s, top, tag, idx) ==
  IF s.k = "func" THEN <<>>
  ELSE IF s.k = "let" /\ s.e.k = "call" THEN LET c == InlineCall(s.e, top, tag) IN c.stmts \o <<[s EXCEPT !.e = c.ret]>>
  ELSE IF s.k = "expr" /\ s.e.k = "call" THEN InlineCall(s.e, top, tag).stmts
  ELSE IF s.k = "for" THEN <<[s EXCEPT !.body = InlineB(s.body, top, tag)]>>
  ELSE <<s>>
Inline(stmts) == InlineB(stmts, stmts, "_c")

\* RenameImplicit: every untyped value gets a fresh, otherwise unused explicit type
FreshTypes == <<"signal-0", "signal-1", "signal-2", "signal-3", "signal-4", "signal-5", "signal-6", "signal-7", "signal-8", "signal-9",
                "signal-red", "signal-green", "signal-blue", "signal-yellow", "signal-pink", "signal-cyan", "signal-white", "signal-grey", "signal-black",
                "signal-check", "signal-info", "signal-dot", "signal-heart", "signal-skull", "signal-star", "signal-moon", "signal-sun", "signal-fire",
                "signal-lock", "signal-unlock", "signal-fuel", "signal-liquid", "signal-mining", "signal-weapon", "signal-damage", "signal-speed",
                "signal-ghost", "signal-recycle", "signal-explosion", "signal-alarm", "signal-alert", "signal-clock", "signal-hourglass">>
IsUntyped(s) == (s.k = "in" /\ s.t = "") \/ (s.k = "let" /\ s.ty = "Signal" /\ s.e.k = "num") \/ (s.k = "mem" /\ s.t = "")
RenameImplicit(ss) ==
  LET used == ExplicitOf(ss)
      free == SelectSeq(FreshTypes, LAMBDA t : t \notin used)
      rank(i) == Cardinality({j \in 1..i : IsUntyped(ss[j])})
  IN [i \in DOMAIN ss |->
        IF ~IsUntyped(ss[i]) \/ rank(i) > Len(free) THEN ss[i]
        ELSE IF ss[i].k = "in" THEN [ss[i] EXCEPT !.t = free[rank(i)]]
        ELSE IF ss[i].k = "mem" THEN [ss[i] EXCEPT !.t = free[rank(i)]]
        ELSE [ss[i] EXCEPT !.e = Lit(TName(free[rank(i)]), ss[i].e)]]
=============================================================================
