------------------------------- MODULE Export -------------------------------
(***************************************************************************)
(* C07: the printed text carries the whole circuit.                        *)
(* For every invocation of the real command line the decoded text (base64  *)
(* + zlib + JSON, or plain JSON: decoded by the harness with the standard  *)
(* library) is compared, entity by entity and wire by wire, with the       *)
(* circuit the compiler PLANNED (hook H1: the layout plan exactly as the   *)
(* emitter received it, placements in emission order).                     *)
(*   Abs(decoded entity i) = Abs(planned placement i)  for combinators:    *)
(*   operation, operands (signal / constant), per-operand network          *)
(*   selection, condition rows with connectives, outputs with copy mode    *)
(*   and constants, constant sections; circuit condition present for every *)
(*   entity with an enable; every planned wire present between the right   *)
(*   connectors with its colour, and nothing else; version stamp 2.0; the  *)
(*   string and --json forms decode to the same blueprint.                 *)
(* Operands in the plan are tagged by the harness ([sig |-> ..] / [const   *)
(* |-> ..]) because TLC's equality is typed.                               *)
(***************************************************************************)
EXTENDS Circuit, KnownFindings, TLCExt

PIDs == 1..Len(Recs)
Fail(p, clause, info) == LET kf == IF "stmts" \in DOMAIN Recs[p] THEN KnownFindingR(Recs[p], clause) ELSE "" IN
                         IF kf # "" THEN PrintT(<<"KNOWN", Recs[p].id, clause, kf>>) ELSE PrintT(<<"FAIL", Recs[p].id, clause, info>>)
Plan(p) == Recs[p].plan
PL(p) == Plan(p).placements
U(p) == Recs[p].u
Asc(c) == CASE c \in {"≥", ">="} -> ">=" [] c \in {"≤", "<="} -> "<=" [] c \in {"≠", "!="} -> "!=" [] c \in {"=", "=="} -> "=" [] OTHER -> c
Mirror(c) == CASE c = "<" -> ">" [] c = ">" -> "<" [] c = "<=" -> ">=" [] c = ">=" -> "<=" [] OTHER -> c
IsSig(x) == "sig" \in DOMAIN x
SigOf(x) == IF IsSig(x) THEN x.sig ELSE NoSig
ConstOf(x) == IF "const" \in DOMAIN x THEN x.const ELSE 0
NoOp == [const |-> 0]
WSel(pr, k) == IF k \in DOMAIN pr THEN <<"red" \in SeqSet(pr[k]), "green" \in SeqSet(pr[k])>> ELSE <<TRUE, TRUE>>

\* what the emitter must produce for an arithmetic placement
ExpArith(pr) ==
  LET l == Get(pr, "left_operand", NoOp)  r == Get(pr, "right_operand", NoOp)
      os0 == Get(pr, "output_signal", NoSig)
      os == IF os0 = "signal-each" /\ SigOf(l) # "signal-each" /\ SigOf(r) # "signal-each" THEN "signal-0" ELSE os0
  IN [fs |-> SigOf(l), ss |-> SigOf(r), os |-> os, k1 |-> ConstOf(l), k2 |-> ConstOf(r), op |-> Get(pr, "operation", "+"),
      n1 |-> IF IsSig(l) THEN WSel(pr, "left_operand_wires") ELSE <<TRUE, TRUE>>, n2 |-> IF IsSig(r) THEN WSel(pr, "right_operand_wires") ELSE <<TRUE, TRUE>>]
ArithOK(u, e, pr) ==
  LET x == ExpArith(pr)  d == NAT[u][e] IN
  /\ d.op = x.op /\ d.fs = x.fs /\ d.ss = x.ss /\ d.os = x.os
  /\ (x.fs # NoSig \/ d.k1 = x.k1) /\ (x.ss # NoSig \/ d.k2 = x.k2)
  /\ (x.fs = NoSig \/ d.n1 = x.n1) /\ (x.ss = NoSig \/ d.n2 = x.n2)

\* decider: single-condition mode (a constant on the left is mirrored to the right) or multi-condition mode
Row1(pr) ==
  LET l == Get(pr, "left_operand", NoOp)  r == Get(pr, "right_operand", NoOp)  c == Asc(Get(pr, "operation", "=")) IN
  IF ~IsSig(l) /\ IsSig(r)
  THEN [fs |-> SigOf(r), ss |-> NoSig, k |-> ConstOf(l), cmp |-> Mirror(c), n1 |-> WSel(pr, "right_operand_wires"), n2 |-> <<TRUE, TRUE>>, ct |-> "or"]
  ELSE [fs |-> IF IsSig(l) THEN SigOf(l) ELSE "signal-0", ss |-> SigOf(r), k |-> IF IsSig(r) THEN (IF IsSig(l) THEN 0 ELSE ConstOf(l)) ELSE ConstOf(r), cmp |-> c,
        n1 |-> IF IsSig(l) THEN WSel(pr, "left_operand_wires") ELSE <<TRUE, TRUE>>, n2 |-> IF IsSig(r) THEN WSel(pr, "right_operand_wires") ELSE <<TRUE, TRUE>>, ct |-> "or"]
RowN(c) ==
  LET fsig == Get(c, "first_signal", NoSig)  ssig == Get(c, "second_signal", NoSig)
      cmp == Asc(Get(c, "comparator", ">")) IN
  IF fsig = NoSig /\ "first_constant" \in DOMAIN c /\ ssig # NoSig
  THEN [fs |-> ssig, ss |-> NoSig, k |-> c.first_constant, cmp |-> Mirror(cmp), n1 |-> WSel(c, "second_signal_wires"), n2 |-> <<TRUE, TRUE>>, ct |-> Get(c, "compare_type", "or")]
  ELSE [fs |-> IF fsig # NoSig THEN fsig ELSE (IF "first_constant" \in DOMAIN c THEN "signal-0" ELSE NoSig), ss |-> ssig,
        k |-> IF ssig # NoSig THEN 0 ELSE Get(c, "second_constant", IF fsig = NoSig THEN Get(c, "first_constant", 0) ELSE 0), cmp |-> cmp,
        n1 |-> IF fsig # NoSig THEN WSel(c, "first_signal_wires") ELSE <<TRUE, TRUE>>, n2 |-> IF ssig # NoSig THEN WSel(c, "second_signal_wires") ELSE <<TRUE, TRUE>>,
        ct |-> Get(c, "compare_type", "or")]
PConds(pr) == IF "conditions" \in DOMAIN pr /\ Len(pr.conditions) > 0 THEN pr.conditions
             ELSE IF "multi_conditions" \in DOMAIN pr /\ Len(pr.multi_conditions) > 0 THEN pr.multi_conditions ELSE <<>>
ExpRows(pr) == IF PConds(pr) # <<>> THEN [i \in DOMAIN PConds(pr) |-> RowN(PConds(pr)[i])] ELSE <<Row1(pr)>>
RowOK(d, x, first) == /\ d.fs = x.fs /\ d.ss = x.ss /\ Asc(d.cmp) = x.cmp /\ (x.ss # NoSig \/ d.k = x.k)
                      /\ (x.fs \in {NoSig, "signal-0"} \/ d.n1 = x.n1) /\ (x.ss = NoSig \/ d.n2 = x.n2) /\ (first \/ d.ct = x.ct)
DeciderOK(u, e, pr) ==
  LET rows == ExpRows(pr)  d == NDT[u][e]
      copy == Get(pr, "copy_count_from_input", FALSE)
      ov == Get(pr, "output_value", [const |-> 1])
  IN /\ Len(d.rows) = Len(rows) /\ \A i \in DOMAIN rows : RowOK(d.rows[i], rows[i], i = 1)
     /\ Len(d.outs) = 1 /\ d.outs[1].os = Get(pr, "output_signal", NoSig) /\ d.outs[1].copy = copy
     /\ (copy \/ IsSig(ov) \/ d.outs[1].k = ConstOf(ov))
     /\ (~copy \/ "output_value_wires" \notin DOMAIN pr \/ d.outs[1].n = WSel(pr, "output_value_wires"))

ConstOK(u, e, pr) ==
  LET bag == NCT[u][e] IN
  IF "signals" \in DOMAIN pr /\ DOMAIN pr.signals # {}
  THEN \A s \in SigsT[u] : bag[s] = (IF s \in DOMAIN pr.signals THEN pr.signals[s] ELSE 0)
  ELSE IF "signal_name" \in DOMAIN pr THEN bag = Single(u, pr.signal_name, Get(pr, "value", 0))
  ELSE bag = ZeroBagT[u]

\* a static boolean property planned for a user-placed entity (recorded by the harness as userprops: name -> 0 / 1) is in the text with
\* that truth value (top level or control_behavior), or is left out exactly when it is the game's default
TextProp(e, k) == IF k \in DOMAIN e THEN <<e[k]>> ELSE IF k \in DOMAIN Get(e, "control_behavior", <<>>) THEN <<e.control_behavior[k]>> ELSE <<>>
UserPropsOK(u, i, pl) ==
  \A k \in DOMAIN Get(pl, "userprops", <<>>) \cap DOMAIN PropDefaults :
     LET want == pl.userprops[k] # 0  got == TextProp(Ents(u)[i], k) IN
     IF got = <<>> THEN want = PropDefaults[k] ELSE got[1] = want
EntityOK(p, i) ==
  LET u == U(p)  pl == PL(p)[i]  pr == pl.props IN
  IF i > Len(Ents(u)) THEN Fail(p, "C07_missing_entity", [index |-> i, id |-> pl.id])
  ELSE /\ (Ents(u)[i].name = pl.type \/ Fail(p, "C07_entity_kind", [index |-> i, id |-> pl.id, planned |-> pl.type, decoded |-> Ents(u)[i].name]))
       /\ (Ents(u)[i].name # pl.type \/
            \* (a combinator the USER placed and left unconfigured carries no planned operation: only kind and properties are compared)
            CASE Get(pl, "plain", FALSE) -> UserPropsOK(u, i, pl) \/ Fail(p, "C07_user_property", [id |-> pl.id, planned |-> pl.userprops, decoded |-> Ents(u)[i]])
              [] pl.type = "arithmetic-combinator" -> ArithOK(u, i, pr) \/ Fail(p, "C07_arithmetic", [id |-> pl.id, planned |-> ExpArith(pr), decoded |-> NAT[u][i]])
              [] pl.type = "decider-combinator" -> DeciderOK(u, i, pr) \/ Fail(p, "C07_decider", [id |-> pl.id, planned |-> ExpRows(pr), decoded |-> NDT[u][i]])
              [] pl.type = "constant-combinator" -> ConstOK(u, i, pr) \/ Fail(p, "C07_constant", [id |-> pl.id, decoded |-> NCT[u][i]])
              [] OTHER -> /\ (UserPropsOK(u, i, pl) \/ Fail(p, "C07_user_property", [id |-> pl.id, planned |-> pl.userprops, decoded |-> Ents(u)[i]]))
                          /\ ((("property_writes" \notin DOMAIN pr \/ "enable" \notin DOMAIN pr.property_writes) \/ NCondT[u][i] # <<>>)
                               \/ Fail(p, "C07_condition", [id |-> pl.id, why |-> "enable planned, no circuit condition in the text"])))

\* wires: every planned wire, as an unordered pair of <<entity index, connector>>, and nothing else on circuit connectors
Idx(p, id) == CHOOSE i \in DOMAIN PL(p) : PL(p)[i].id = id
IsComb(p, i) == PL(p)[i].type \in {"arithmetic-combinator", "decider-combinator"}
Conn(p, i, side, color) == LET base == IF IsComb(p, i) /\ side = "output" THEN 3 ELSE 1 IN IF color = "green" THEN base + 1 ELSE base
PlanWires(p) == {LET w == Plan(p).wires[j]  a == Idx(p, w.src)  b == Idx(p, w.dst)
                     sa == IF "src_side" \in DOMAIN w THEN w.src_side ELSE (IF IsComb(p, a) THEN "output" ELSE "input")
                     sb == IF "dst_side" \in DOMAIN w THEN w.dst_side ELSE "input"
                 IN {<<a, Conn(p, a, sa, w.color)>>, <<b, Conn(p, b, sb, w.color)>>} : j \in DOMAIN Plan(p).wires}
TextWires(p) == {{<<w[1], w[2]>>, <<w[3], w[4]>>} : w \in {w \in SeqSet(BPs[U(p)].wires) : w[2] \in 1..4 /\ w[4] \in 1..4}}
WiresOK2(p) == (PlanWires(p) = TextWires(p))
               \/ Fail(p, "C07_wires", [missing_in_text |-> PlanWires(p) \ TextWires(p), extra_in_text |-> TextWires(p) \ PlanWires(p)])
Check(p) ==
  /\ \A i \in DOMAIN PL(p) : EntityOK(p, i)
  /\ WiresOK2(p)
  /\ (Get(BPs[U(p)], "version_hi", 0) = 2 \/ Fail(p, "C07_version", [version_hi |-> Get(BPs[U(p)], "version_hi", 0)]))
  /\ ("u2" \notin DOMAIN Recs[p] \/ (BPs[Recs[p].u2].entities = BPs[U(p)].entities /\ BPs[Recs[p].u2].wires = BPs[U(p)].wires)
      \/ Fail(p, "C07_forms_differ", [why |-> "string form and JSON form decode to different blueprints"]))
ASSUME \A p \in PIDs : Check(p)
ASSUME PrintT(<<"CHECKED", Len(Recs), [p \in PIDs |-> Len(PL(p))]>>)
VARIABLE e_x
EInit == e_x = 0
ENext == e_x' = e_x
=============================================================================
