------------------------------- MODULE Reject -------------------------------
(***************************************************************************)
(* C14: ill-formed programs are rejected and produce no blueprint.         *)
(* One compile = one step Compile(P, how) whose outcome is recorded by the *)
(* harness (API call in a worker; real CLI subprocess for a slice):        *)
(*   status   "ok" | "rejected" (a deliberate diagnostic / parse error) |  *)
(*            "crashed" (any other exception) | "timeout"                  *)
(*   msg      the error text is non-empty;   names: it mentions the        *)
(*            offending identifier (substring test done by the harness -   *)
(*            TLC has no substring operator)                               *)
(*   cli      [exit, stdout ("empty" | "blueprint" | "json" | "other"),    *)
(*             outfile (an -o file was created)]   for CLI records         *)
(* Every record of Data!Recs was generated ill-formed by GenIll, so the    *)
(* antecedent of the property holds by construction.                       *)
(***************************************************************************)
EXTENDS Data, Integers, Sequences, FiniteSets, TLC

PIDs == 1..Len(Recs)
Fail(p, clause, info) == IF clause \notin Clauses THEN TRUE ELSE PrintT(<<"FAIL", Recs[p].id, clause, info>>)
LooksLikeBlueprint(k) == k \in {"blueprint", "json"}
Check(p) ==
  LET r == Recs[p] IN
  /\ (r.status = "rejected" \/ Fail(p, "C14_rejected", [rule |-> r.rule, ctx |-> r.ctx, status |-> r.status, message |-> r.message]))
  /\ (r.status # "rejected" \/ r.msg \/ Fail(p, "C14_message", [rule |-> r.rule, why |-> "empty error text"]))
  /\ (r.status # "rejected" \/ r.name = "" \/ r.names \/ Fail(p, "C14_names", [rule |-> r.rule, name |-> r.name, message |-> r.message]))
  /\ ("cli" \notin DOMAIN r \/
        /\ (r.cli.exit # 0 \/ Fail(p, "C14_exit", [rule |-> r.rule, exit |-> r.cli.exit]))
        /\ (~LooksLikeBlueprint(r.cli.stdout) \/ Fail(p, "C14_no_blueprint", [rule |-> r.rule, stdout |-> r.cli.stdout]))
        /\ (~r.cli.outfile \/ Fail(p, "C14_no_blueprint", [rule |-> r.rule, outfile |-> TRUE])))
ASSUME \A p \in PIDs : Check(p)
ASSUME PrintT(<<"CHECKED", Len(Recs)>>)
VARIABLE r_x
RInit == r_x = 0
RNext == r_x' = r_x
=============================================================================
