----------------------------- MODULE GenLayout -----------------------------
(***************************************************************************)
(* Generator specification for the layout-sensitive properties (C08, C18,  *)
(* C19): user entities far apart (relays needed), high fan-out, long       *)
(* chains (> 20 entities: the full relaxation ladder), mixes.              *)
(***************************************************************************)
EXTENDS Facto, FiniteSetsExt, SequencesExt, Json, IOUtils

A == Ref("a")  B == Ref("b")
InA == SIn("a", "signal-A", 5)
InB == SIn("b", "signal-B", 2)
Lamp(n, x, y) == SPlace(n, "small-lamp", Num(x), Num(y), <<>>)
En(n, e) == SProp(n, "enable", e)
P(grp, stmts) == [grp |-> grp, stmts |-> stmts, src |-> Render(stmts), dom |-> <<-3, 0, 2, 3, 6>>]
Far(d) == P("far", <<InA, Lamp("l", 0, 0), Lamp("k", d, 0), En("l", Bin(">", A, Num(1))), En("k", Bin("<", A, Num(3)))>>)
Far2(d) == P("far", <<InA, InB, Lamp("l", 0, 0), Lamp("k", d, d), SLet("Signal", "s", Bin("+", A, B)), En("l", Bin(">", Ref("s"), Num(1))), En("k", Bin(">", Bin("*", Ref("s"), Num(2)), Num(5)))>>)
Row(n, gap) == P("fanout", <<InA>> \o [i \in 1..n |-> Lamp("l" \o ToString(i), (i - 1) * gap, 0)] \o [i \in 1..n |-> En("l" \o ToString(i), Bin(">", A, Num(i)))])
RECURSIVE Chain(_)
Chain(n) == IF n = 0 THEN A ELSE Bin(IF n % 3 = 0 THEN "*" ELSE IF n % 3 = 1 THEN "+" ELSE "-", Chain(n - 1), Num((n % 5) + 1))
Long(n) == P("long", <<InA, SLet("Signal", "r", Chain(n))>>)
Wide(n) == P("wide", <<InA, InB>> \o [i \in 1..n |-> SLet("Signal", "r" \o ToString(i), Bin("+", Bin("*", A, Num(i)), Num(i)))])
MemFar == P("memfar", <<SIn("d", "signal-M", 5), SIn("e", "signal-E", 0), SMem("m", "signal-M"), SWrite("m", Ref("d"), "when", Bin(">", Ref("e"), Num(0)), Num(0)),
                        Lamp("l", 0, 0), Lamp("k", 25, 0), En("l", Bin(">", ReadE("m"), Num(0))), En("k", Bin("<", ReadE("m"), Num(0)))>>)
\* a combinator pulled away from both of its neighbours: a chest feeds a multiplier that drives lamps near the chest and far away
Chest(n, x, y) == SPlace(n, "steel-chest", Num(x), Num(y), <<>>)
CI(n) == <<[ent |-> n, item |-> "iron-plate"]>>
PC(grp, stmts, cins) == [grp |-> grp, stmts |-> stmts, src |-> Render(stmts), dom |-> <<0, 1>>, cins |-> cins]
Iron(n) == Sel(EOut(n), "iron-plate")
Through == {
  PC("through", <<Chest("c", 0, 0), SLet("Signal", "s", Bin("*", Iron("c"), Num(2))), Lamp("near", 0, 4), Lamp("far", d, 0),
                  En("near", Bin(">", Ref("s"), Num(100))), En("far", Bin(">", Ref("s"), Num(10)))>>, CI("c")) : d \in {20, 40}}
  \cup {
  PC("through", <<Chest("c", 0, 0), Chest("k", 0, 2), SLet("Signal", "s1", Bin("*", Iron("c"), Num(2))), SLet("Signal", "s2", Bin("*", Iron("k"), Num(3))),
                  Lamp("l1", 40, 0), Lamp("l2", 40, 2), En("l1", Bin(">", Ref("s1"), Num(10))), En("l2", Bin(">", Ref("s2"), Num(10)))>>, CI("c") \o CI("k")),
  PC("through", <<Chest("c", 0, 0), SLet("Signal", "s", Bin("+", Iron("c"), Num(1))), SLet("Signal", "t", Bin("*", Ref("s"), Num(2))), Lamp("mid", 20, 0), Lamp("far", 40, 0),
                  En("mid", Bin(">", Ref("s"), Num(5))), En("far", Bin(">", Ref("t"), Num(20)))>>, CI("c")),
  PC("through", <<Chest("pa", 0, 0), Chest("pb", 0, 2), Lamp("pl", 30, 0), En("pl", Bin(">", Iron("pa"), Num(5))), SProp("pl", "r", Sel(EOut("pb"), "copper-plate"))>>, CI("pa") \o <<[ent |-> "pb", item |-> "copper-plate"]>>)
 }
\* tall / wide arrangements of user entities declared from the far end first, in the middle first, and in order
Col(n, ys) == P(n, <<InA>> \o [i \in DOMAIN ys |-> Lamp("l" \o ToString(i), 0, ys[i])] \o [i \in DOMAIN ys |-> En("l" \o ToString(i), Bin(">", A, Num(i)))])
RowX(n, xs) == P(n, <<InA>> \o [i \in DOMAIN xs |-> Lamp("l" \o ToString(i), xs[i], 0)] \o [i \in DOMAIN xs |-> En("l" \o ToString(i), Bin(">", A, Num(i)))])
Columns == {Col("column", <<30, 27, 24, 21, 18, 15, 12, 9, 6, 3, 0>>), Col("column", <<0, 3, 6, 9, 12, 15, 18, 21, 24, 27, 30>>), Col("column", <<15, 30, 0, 24, 6>>),
            RowX("column", <<30, 24, 18, 12, 6, 0>>), RowX("column", <<0, 6, 12, 18, 24, 30>>), Col("column", <<-20, -10, 0>>), RowX("column", <<-20, 5, -8>>)}
Obstacles == {PC("obstacle", <<Chest("c", 0, 0), SPlace("o", pr, Num(ox), Num(0), <<>>), Lamp("far", 40, 0), En("far", Bin(">", Iron("c"), Num(5)))>>, CI("c")) :
                 pr \in {"assembling-machine-1", "storage-tank", "roboport", "train-stop"}, ox \in {6, 7, 8, 9}}
         \cup {PC("obstacle", <<Chest("c", 0, 0), SPlace("o", pr, Num(0), Num(oy), <<>>), Lamp("far", 0, 40), En("far", Bin(">", Iron("c"), Num(5)))>>, CI("c")) :
                 pr \in {"assembling-machine-1", "roboport"}, oy \in {7, 8}}
All == Through \cup Obstacles \cup Columns \cup {Far(d) : d \in {12, 25, 45}} \cup {Far2(d) : d \in {10, 20}} \cup {Row(n, g) : n \in {6, 12}, g \in {2, 5}} \cup {Long(n) : n \in {6, 14, 26}}
       \cup {Wide(n) : n \in {5, 12}} \cup {MemFar}
ASSUME PrintT(<<"NPROGS", Cardinality(All)>>)
ASSUME JsonSerialize(IOEnv.GEN_OUT, SetToSeq(All))
=============================================================================
