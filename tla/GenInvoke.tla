----------------------------- MODULE GenInvoke -----------------------------
(***************************************************************************)
(* Generator specification for C07: every way of invoking the compiler.    *)
(*   entry   factompile (console entry point) | python -m dsl_compiler |   *)
(*           compile.py (file input only)                                  *)
(*   input   a file | -i "source"                                          *)
(*   form    blueprint string | --json                                     *)
(*   out     stdout | -o file                                              *)
(*   opt     none | --no-optimize | --power-poles medium | --name X        *)
(***************************************************************************)
EXTENDS Integers, Sequences, SequencesExt, FiniteSets, FiniteSetsExt, Json, IOUtils, TLC
Entries == {"factompile", "module", "script"}
Inputs == {"file", "string"}
Forms == {"string", "json"}
Outs == {"stdout", "file"}
Opts == {"none", "noopt", "poles", "name"}
All == {[entry |-> e, input |-> i, form |-> f, out |-> o, opt |-> x] : e \in Entries, i \in Inputs, f \in Forms, o \in Outs, x \in Opts}
Valid == {c \in All : ~(c.entry = "script" /\ c.input = "string")}
ASSUME PrintT(<<"NPROGS", Cardinality(Valid)>>)
ASSUME JsonSerialize(IOEnv.GEN_OUT, SetToSeq(Valid))
=============================================================================
