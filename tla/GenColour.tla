----------------------------- MODULE GenColour -----------------------------
(***************************************************************************)
(* Spec -> code: every instance of a small universe of the wire-colour     *)
(* planner's input, enumerated by TLC; the harness feeds each one to the   *)
(* real plan_wire_colors and TraceColour judges what comes back.           *)
(***************************************************************************)
EXTENDS Integers, Sequences, FiniteSets, TLC, Json, IOUtils, SequencesExt
Colours == {"red", "green"}
Inst(srcs, snks, sigs, merges, maxlen, maxlocks, grp) ==
  LET vals == [src : srcs, snk : snks, sig : sigs, merge : merges]
      seqs == UNION {[1..n -> vals] : n \in 0..maxlen}
      nodes == (srcs \ {0}) \X sigs
      lockfns == UNION {[S -> Colours] : S \in {T \in SUBSET nodes : Cardinality(T) <= maxlocks}}
  IN {[grp |-> grp, edges |-> es, locked |-> SetToSeq({[n |-> n, c |-> lk[n]] : n \in DOMAIN lk})] : es \in seqs, lk \in lockfns}
\* one signal, up to three sources and two sinks, merges: every sequence of up to 3 edges x up to 2 locks;
\* two signals / a source-less edge / longer sequences without merges
\* COL_SCALE = "quick": sequences one edge shorter (10 136 instances instead of 104 447)
D == IF IOEnv.COL_SCALE = "quick" THEN 1 ELSE 0
All == Inst({1, 2, 3}, {1, 2}, {1}, {0, 1}, 3 - D, 2, "one-signal")
       \cup Inst({0, 1, 2}, {1}, {1, 2}, {0, 1}, 3 - D, 1, "two-signals")
       \cup Inst({1, 2, 3}, {1}, {1}, {0, 1, 2}, 4 - D, 1, "one-sink")
ASSUME PrintT(<<"NPROGS", Cardinality(All)>>)
ASSUME JsonSerialize(IOEnv.GEN_OUT, SetToSeq(All))
=============================================================================
