---------------------------- MODULE TraceImport ----------------------------
(***************************************************************************)
(* Trace validation of hook events H4 (import resolution) against Import.  *)
(* Data.tla: Traces == << [id, graph (file -> imports, from the generated  *)
(* program: the SPEC's view of the import structure), events |-> <<[kind,  *)
(* file]>>] >>.  Each event must be the model's Inline or Skip of exactly   *)
(* that file; Pop is silent (a file whose imports are exhausted is popped   *)
(* before the next event is consumed).  Accepted = all events consumed and  *)
(* the expansion stack empties afterwards (no import was left unprocessed). *)
(***************************************************************************)
EXTENDS Import, Data, TLC, TLCExt

VARIABLES t_id, t_l
tvars == <<i_imports, i_stack, i_processed, i_inlined, t_id, t_l>>
TIDs == 1..Len(Traces)
Ev(t) == Traces[t].events
ASSUME \A t \in TIDs : TLCSet(t, 0)
TInit == t_id \in TIDs /\ t_l = 1 /\ IInit(Traces[t_id].graph)
Consume(kind) == /\ t_l <= Len(Ev(t_id)) /\ Ev(t_id)[t_l].kind = kind
                 /\ HasNext /\ NextFile = Ev(t_id)[t_l].file
                 /\ t_l' = t_l + 1 /\ UNCHANGED t_id
TInline == Consume("inline") /\ Inline
TSkip == Consume("skip") /\ Skip
TPop == Pop /\ UNCHANGED <<t_id, t_l>>
TNext == TInline \/ TSkip \/ TPop
TSpec == TInit /\ [][TNext]_tvars
\* progress register: events consumed, +1000 when the stack is empty at the end (complete expansion)
Score == (t_l - 1) + (IF t_l > Len(Ev(t_id)) /\ i_stack = <<>> THEN 1000 ELSE 0)
Progress == TLCSet(t_id, IF Score > TLCGet(t_id) THEN Score ELSE TLCGet(t_id))
Safe == (OnceEach /\ Bounded) \/ PrintT(<<"FAIL", Traces[t_id].id, "C17_import_once", [inlined |-> i_inlined]>>)
Report(t) == LET sc == TLCGet(t)  got == sc % 1000 IN
             <<"TRACE", Traces[t].id, IF sc >= 1000 THEN got ELSE (IF got = Len(Ev(t)) THEN got - 1 ELSE got), Len(Ev(t)),
               IF got < Len(Ev(t)) THEN Ev(t)[got + 1] ELSE <<>> >>
Accepted == \A t \in TIDs : PrintT(Report(t))
=============================================================================
