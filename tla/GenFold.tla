------------------------------ MODULE GenFold ------------------------------
(***************************************************************************)
(* Generator specification for C11: every arithmetic operator x every      *)
(* folding site x boundary operand pairs.  Each program has a twin         *)
(* (Deconst): the constant operand X is replaced by an input signal `kx`   *)
(* pinned to X, so that the same operation is performed by a combinator at *)
(* run time.  Refine1 judges the folded build against the interpreter      *)
(* (whose compile-time arithmetic IS Int32); Refine2 compares it with the  *)
(* twin build.                                                             *)
(***************************************************************************)
EXTENDS Facto, FiniteSetsExt, SequencesExt, Json, IOUtils

A == Ref("a")
InA == SIn("a", "signal-A", 5)
Vals == {MinI, -7, -1, 0, 2, 7, 31, 65536, MaxI}
FoldOps == ArithOps
\* exponents are kept <= 31: the value is still well defined beyond, but evaluating MaxI ** MaxI is only a way to waste compile time
Pairs(op) == {<<x, y>> \in Vals \X Vals : ArithDef(op, x, y) /\ (op # "**" \/ y <= 31)}
Sites == {"intdecl", "operand", "literal", "cond", "callarg", "untyped", "intchain", "callbody", "calltwice", "callliteral", "litlit"}
FB(op) == SFunc("f", <<[ty |-> "Signal", n |-> "s"], [ty |-> "int", n |-> "n"], [ty |-> "int", n |-> "m"]>>, <<>>, Bin("+", Ref("s"), Bin(op, Ref("n"), Ref("m"))))
FL(op) == SFunc("g", <<[ty |-> "int", n |-> "n"], [ty |-> "int", n |-> "m"]>>, <<>>, Lit(TName("signal-X"), Bin(op, Ref("n"), Ref("m"))))

\* folded program for (site, op, x, y)
Prog(site, op, x, y) ==
  CASE site = "intdecl" -> <<InA, SInt("k", Bin(op, Num(x), Num(y))), SLet("Signal", "r", Bin("+", A, Ref("k")))>>
    [] site = "operand" -> <<InA, SLet("Signal", "r", Bin("+", A, Bin(op, Num(x), Num(y))))>>
    [] site = "literal" -> <<InA, SLet("Signal", "q", Lit(TName("signal-X"), Bin(op, Num(x), Num(y)))), SLet("Signal", "r", Bin("+", A, Ref("q")))>>
    [] site = "cond" -> <<InA, SLet("Signal", "r", CondE(Bin("<=", A, Bin(op, Num(x), Num(y))), Num(1)))>>
    [] site = "callarg" -> <<InA, SFunc("f", <<[ty |-> "Signal", n |-> "s"], [ty |-> "int", n |-> "n"]>>, <<>>, Bin("+", Ref("s"), Ref("n"))),
                             SLet("Signal", "r", CallE("f", <<A, Bin(op, Num(x), Num(y))>>))>>
    \* both operands anonymous typed literals of one type (constants the IR-level propagation may fold)
    [] site = "litlit" -> <<InA, SLet("Signal", "q", Bin(op, Lit(TName("signal-X"), Num(x)), Lit(TName("signal-X"), Num(y)))), SLet("Signal", "r", Bin("+", A, Ref("q")))>>
    [] site = "callbody" -> <<InA, FB(op), SLet("Signal", "r", CallE("f", <<A, Num(x), Num(y)>>))>>
    \* an earlier call of the same function with other constants (2 op 1 is defined for every operator) must not influence this one
    [] site = "calltwice" -> <<InA, FB(op), SLet("Signal", "q", CallE("f", <<A, Num(2), Num(1)>>)), SLet("Signal", "r", CallE("f", <<A, Num(x), Num(y)>>))>>
    [] site = "callliteral" -> <<InA, FL(op), SLet("Signal", "p", CallE("g", <<Num(2), Num(1)>>)), SLet("Signal", "q", CallE("g", <<Num(x), Num(y)>>)), SLet("Signal", "r", Bin("+", A, Ref("q")))>>
    [] site = "untyped" -> <<InA, SLet("Signal", "x", Num(x)), SLet("Signal", "y", Num(y)), SLet("Signal", "r", Bin("+", Bin(op, Ref("x"), Ref("y")), A))>>
    [] site = "intchain" -> <<InA, SInt("i", Num(x)), SInt("j", Num(y)), SInt("k", Bin(op, Ref("i"), Ref("j"))), SInt("m", Bin("+", Ref("k"), Num(0))),
                              SLet("Signal", "r", Bin("+", A, Ref("m")))>>
\* twin: the same computation with X as a run-time input kx (pinned to x): performed by a combinator
InK == SIn("kx", "signal-K", 0)
Twin(site, op, x, y) ==
  CASE site = "cond" -> <<InA, InK, SLet("Signal", "r", CondE(Bin("<=", A, Bin(op, Ref("kx"), Num(y))), Num(1)))>>
    [] site = "literal" -> <<InA, InK, SLet("Signal", "q", Proj(Bin(op, Ref("kx"), Num(y)), TName("signal-X"))), SLet("Signal", "r", Bin("+", A, Ref("q")))>>
    [] site = "litlit" -> <<InA, InK, SLet("Signal", "q", Proj(Bin(op, Ref("kx"), Num(y)), TName("signal-X"))), SLet("Signal", "r", Bin("+", A, Ref("q")))>>
    [] site = "callliteral" -> <<InA, InK, SLet("Signal", "q", Proj(Bin(op, Ref("kx"), Num(y)), TName("signal-X"))), SLet("Signal", "r", Bin("+", A, Ref("q")))>>
    [] OTHER -> <<InA, InK, SLet("Signal", "r", Bin("+", A, Bin(op, Ref("kx"), Num(y))))>>
P(site, op, x, y) == LET s == Prog(site, op, x, y)  t == Twin(site, op, x, y) IN
   [grp |-> site, op |-> op, x |-> x, y |-> y, stmts |-> s, src |-> Render(s), stmts2 |-> t, src2 |-> Render(t), pin2 |-> [kx |-> x]]
All == UNION {{P(site, op, q[1], q[2]) : q \in Pairs(op)} : site \in Sites, op \in FoldOps}
ASSUME PrintT(<<"NPROGS", Cardinality(All)>>)
ASSUME JsonSerialize(IOEnv.GEN_OUT, SetToSeq(All))
=============================================================================
