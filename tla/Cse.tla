-------------------------------- MODULE Cse --------------------------------
(***************************************************************************)
(* Design model of common-subexpression elimination (ir/optimizer.py,      *)
(* CSEOptimizer): the one place where the compiler decides that two        *)
(* operations are "the same" and keeps only one of them.                   *)
(*                                                                         *)
(*   s_ops    the operations in program order.  A node is a record         *)
(*              [kind |-> "leaf"]                     (anything else)      *)
(*              [kind |-> "arith", op, l, r, out]                          *)
(*              [kind |-> "decider", conds, ov, copy, out]                 *)
(*              [kind |-> "use", vals]   (an effect that READS values: a   *)
(*                 memory / latch / property write; never merged, but its   *)
(*                 operands must follow the replacements)                  *)
(*            with conds a sequence of [cmp, a, b, ct] (one row = the      *)
(*            single-condition form) and operands                          *)
(*              [k |-> "int", v]  |  [k |-> "sig", src, t]  |              *)
(*              [k |-> "name", s]     (a signal read by name)  |           *)
(*              [k |-> "opaque", u]   (a bundle reference: never shared)   *)
(*            src is the index of an EARLIER node.                         *)
(*   Visit    one step of the optimizer's single pass: compute the key of  *)
(*            node s_i with its operands canonicalised through the         *)
(*            replacements made so far; a key seen before => the node is   *)
(*            replaced by the first node with that key, otherwise kept.    *)
(*   Rewire   afterwards every kept node's operands are redirected to the  *)
(*            canonical nodes.                                             *)
(* Property: a node is only ever replaced by a node that denotes the same  *)
(* value (same operator, operands, output type, output value and output    *)
(* mode, recursively), and rewiring does not change what a kept node       *)
(* denotes.                                                                *)
(***************************************************************************)
EXTENDS Integers, Sequences, FiniteSets, Functions, TLC

VARIABLES s_ops, s_i, s_cache, s_repl, s_kept
svars == <<s_ops, s_i, s_cache, s_repl, s_kept>>

Canon(repl, id) == IF id \in DOMAIN repl THEN repl[id] ELSE id
VKey(repl, v) == CASE v.k = "sig" -> <<"sig", Canon(repl, v.src), v.t>>
                   [] v.k = "int" -> <<"int", v.v>>
                   [] v.k = "name" -> <<"name", v.s>>
                   [] OTHER -> <<"opaque", v.u>>
\* everything that decides what the operation computes and where it puts it
Key(repl, n) == CASE n.kind = "arith" -> <<"arith", n.op, VKey(repl, n.l), VKey(repl, n.r), n.out>>
                  [] n.kind = "decider" -> <<"decider", [j \in DOMAIN n.conds |-> <<n.conds[j].cmp, VKey(repl, n.conds[j].a), VKey(repl, n.conds[j].b), n.conds[j].ct>>],
                                             VKey(repl, n.ov), n.out, n.copy>>
                  [] OTHER -> <<>>

SInit(ops) == s_ops = ops /\ s_i = 1 /\ s_cache = <<>> /\ s_repl = <<>> /\ s_kept = <<>>
Visit == /\ s_i <= Len(s_ops)
         /\ LET n == s_ops[s_i]  key == Key(s_repl, n) IN
            IF n.kind \in {"leaf", "use"} THEN s_kept' = Append(s_kept, s_i) /\ UNCHANGED <<s_cache, s_repl>>
            ELSE IF key \in DOMAIN s_cache
                 THEN s_repl' = (s_i :> s_cache[key]) @@ s_repl /\ UNCHANGED <<s_cache, s_kept>>
                 ELSE s_cache' = (key :> s_i) @@ s_cache /\ s_kept' = Append(s_kept, s_i) /\ UNCHANGED s_repl
         /\ s_i' = s_i + 1 /\ UNCHANGED s_ops
SNext == Visit
SDone == s_i > Len(s_ops)

(* ---- what a node denotes ---- *)
(* Two nodes denote the same value iff they have the same operator, output type, output value and mode and their operands denote  *)
(* the same values, recursively down to the leaves.  Instead of building the terms, nodes are numbered by their class: Reps(g)[i]  *)
(* is the least j <= i that denotes the same value as i in graph g (computed in one pass, operands refer to earlier nodes).       *)
(* Node k of a graph may be marked [twin |-> j]: it is the leaf j itself (used to compare two graphs over the same leaves).        *)
SV(r, v) == CASE v.k = "sig" -> <<"sig", r[v.src], v.t>> [] v.k = "int" -> <<"int", v.v>> [] v.k = "name" -> <<"name", v.s>> [] OTHER -> <<"opaque", v.u>>
\* "the same value" is semantic, not textual: a + b and b + a, a > b and b < a denote the same (a maintainer may make the pass merge
\* them); a ^ b (power) and b ^ a, a - b and b - a do not.  An unordered pair is written as the set of its two orientations.
Commutative == {"+", "*", "AND", "OR", "XOR"}
Mirror(c) == CASE c = ">" -> "<" [] c = "<" -> ">" [] c = ">=" -> "<=" [] c = "<=" -> ">=" [] OTHER -> c
SKey(g, r, i) == LET n == g[i] IN
  CASE n.kind = "leaf" -> <<"leaf", IF "twin" \in DOMAIN n THEN n.twin ELSE i>>
    [] n.kind = "use" -> <<"use", IF "twin" \in DOMAIN n THEN n.twin ELSE i, [j \in DOMAIN n.vals |-> SV(r, n.vals[j])]>>
    [] n.kind = "arith" -> IF n.op \in Commutative THEN <<"arith", n.op, {<<SV(r, n.l), SV(r, n.r)>>, <<SV(r, n.r), SV(r, n.l)>>}, n.out>>
                           ELSE <<"arith", n.op, <<SV(r, n.l), SV(r, n.r)>>, n.out>>
    [] OTHER -> <<"decider", [j \in DOMAIN n.conds |-> <<{<<n.conds[j].cmp, SV(r, n.conds[j].a), SV(r, n.conds[j].b)>>, <<Mirror(n.conds[j].cmp), SV(r, n.conds[j].b), SV(r, n.conds[j].a)>>}, n.conds[j].ct>>],
                 SV(r, n.ov), n.out, n.copy>>
RECURSIVE BuildReps(_, _, _)
BuildReps(g, k, r) == IF k > Len(g) THEN r ELSE
   LET key == SKey(g, r, k)
       same == {j \in 1..(k - 1) : r[j] = j /\ SKey(g, r, j) = key}
   IN BuildReps(g, k + 1, Append(r, IF same = {} THEN k ELSE CHOOSE j \in same : TRUE))
Reps(g) == BuildReps(g, 1, <<>>)
\* the graph after rewiring: operands redirected to the canonical nodes
RewV(repl, v) == IF v.k = "sig" THEN [v EXCEPT !.src = Canon(repl, v.src)] ELSE v
Rewired(ops, repl) == [id \in DOMAIN ops |-> LET n == ops[id] IN
   CASE n.kind = "arith" -> [n EXCEPT !.l = RewV(repl, n.l), !.r = RewV(repl, n.r)]
     [] n.kind = "decider" -> [n EXCEPT !.ov = RewV(repl, n.ov), !.conds = [j \in DOMAIN n.conds |-> [n.conds[j] EXCEPT !.a = RewV(repl, n.conds[j].a), !.b = RewV(repl, n.conds[j].b)]]]
     [] n.kind = "use" -> [n EXCEPT !.vals = [j \in DOMAIN n.vals |-> RewV(repl, n.vals[j])]]
     [] OTHER -> n]
\* both graphs side by side over the same leaves: node i of `after` becomes node Len(before) + i
ShiftV(d, v) == IF v.k = "sig" THEN [v EXCEPT !.src = v.src + d] ELSE v
Shift(d, g) == [id \in DOMAIN g |-> LET n == g[id] IN
   CASE n.kind = "arith" -> [n EXCEPT !.l = ShiftV(d, n.l), !.r = ShiftV(d, n.r)]
     [] n.kind = "decider" -> [n EXCEPT !.ov = ShiftV(d, n.ov), !.conds = [j \in DOMAIN n.conds |-> [n.conds[j] EXCEPT !.a = ShiftV(d, n.conds[j].a), !.b = ShiftV(d, n.conds[j].b)]]]
     [] n.kind = "use" -> [kind |-> "use", twin |-> id, vals |-> [j \in DOMAIN n.vals |-> ShiftV(d, n.vals[j])]]
     [] OTHER -> [kind |-> "leaf", twin |-> id]]
SameAcross(before, after, ids) == LET r == Reps(before \o Shift(Len(before), after)) IN \A id \in ids : r[id] = r[Len(before) + id]
\* operands of the given nodes only point at the given nodes
Closed(g, ids) == \A id \in ids : LET n == g[id]
                                        vs == IF n.kind = "arith" THEN {n.l, n.r} ELSE IF n.kind = "decider" THEN {n.ov} \cup UNION {{n.conds[j].a, n.conds[j].b} : j \in DOMAIN n.conds}
                                              ELSE IF n.kind = "use" THEN Range(n.vals) ELSE {}
                                    IN \A v \in vs : v.k = "sig" => v.src \in ids

\* a node is replaced only by an EARLIER, KEPT node that denotes the same value
MergeSoundFor(ops, repl) == LET r == Reps(ops) IN \A a \in DOMAIN repl : repl[a] < a /\ repl[a] \notin DOMAIN repl /\ r[a] = r[repl[a]]
MergeSound == MergeSoundFor(s_ops, s_repl)
\* every node is kept or replaced, never both, never lost
Partition == SDone => /\ Range(s_kept) \cup DOMAIN s_repl = DOMAIN s_ops /\ Range(s_kept) \cap DOMAIN s_repl = {}
\* rewiring never points at a removed node and does not change what a kept node denotes
RewireSound == SDone => /\ Closed(Rewired(s_ops, s_repl), Range(s_kept))
                        /\ SameAcross(s_ops, Rewired(s_ops, s_repl), Range(s_kept))
\* (the pass as it is identifies operations textually: it is sound for the semantic notion above, not complete - a + b and b + a are
\* both kept; no completeness property is claimed)
=============================================================================
