SPECIFICATION MCFair
CONSTANT Ladder <- MCLadder
CONSTANT MaxRetries = 3
INVARIANT AttemptsBounded
INVARIANT DoneMeansRouted
INVARIANT ErrorMeansFailed
INVARIANT RouteNeedsSolution
PROPERTY RetryOnlyAfterFailure
PROPERTY LadderInOrder
PROPERTY Eventually
CHECK_DEADLOCK FALSE
