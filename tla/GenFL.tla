------------------------------- MODULE GenFL -------------------------------
(***************************************************************************)
(* Generator specifications for C15 (calls = substitution) and C16 (loops  *)
(* = unrolling).  Every program carries its twin computed by Facto!Inline  *)
(* / Facto!Unroll.  Loop bodies are observable through the entities they   *)
(* place (enable conditions, C06/C09 machinery) and the cells they declare.*)
(***************************************************************************)
EXTENDS Facto, FiniteSetsExt, SequencesExt, Json, IOUtils

A == Ref("a")  B == Ref("b")
InA == SIn("a", "signal-A", 5)
InB == SIn("b", "signal-B", 2)
Dom5 == <<-3, 0, 1, 2, 3, 5>>
Lamp(n, x, y) == SPlace(n, "small-lamp", x, y, <<>>)
En(n, e) == SProp(n, "enable", e)
PL(grp, stmts, mode) == LET t == Unroll(stmts) IN [grp |-> grp, stmts |-> stmts, src |-> Render(stmts), stmts2 |-> t, src2 |-> Render(t), dom |-> Dom5, mode |-> mode]
PF(grp, stmts, mode) == LET t == Inline(stmts) IN [grp |-> grp, stmts |-> stmts, src |-> Render(stmts), stmts2 |-> t, src2 |-> Render(t), dom |-> Dom5, mode |-> mode]
I == Ref("i")  J == Ref("j")
Body1 == <<Lamp("e", Bin("*", I, Num(2)), Num(0)), En("e", Bin(">", A, I))>>
Ranges == {IRange(Num(a), Num(b), Num(s)) : a \in {0, 3, -2}, b \in {0, 3, -2}, s \in {0, 1, 2, -1, -2}} \cup {IList(<<1, 5, -4>>), IList(<<>>), IList(<<2>>)}
Loops1 == {PL("range", <<InA, SFor("i", it, Body1)>>, "val") : it \in Ranges}
Loops2 == {
  PL("nest", <<InA, InB, SFor("i", IRange(Num(0), Num(3), Num(0)), <<SFor("j", IRange(Num(0), Num(2), Num(0)),
       <<Lamp("e", Bin("*", I, Num(2)), Bin("*", J, Num(2))), En("e", Bin(">", Bin("+", A, B), Bin("+", I, J)))>>)>>)>>, "val"),
  PL("nest", <<InA, SFor("i", IRange(Num(1), Num(4), Num(0)), <<SFor("j", IRange(Num(0), I, Num(0)),
       <<Lamp("e", Bin("*", I, Num(2)), Bin("*", J, Num(2))), En("e", Bin("==", A, Bin("-", I, J)))>>)>>)>>, "val"),
  PL("intvar", <<InA, SInt("n", Num(3)), SInt("st", Num(2)), SFor("i", IRange(Num(0), Ref("n"), Num(0)), Body1), SFor("k", IRange(Ref("n"), Num(9), Ref("st")),
       <<Lamp("f", Ref("k"), Num(3)), En("f", Bin("<", A, Ref("k")))>>)>>, "val"),
  PL("bodyint", <<InA, SFor("i", IRange(Num(0), Num(4), Num(0)), <<SInt("k", Bin("+", Bin("*", I, I), Num(1))), Lamp("e", Bin("*", I, Num(2)), Num(0)), En("e", Bin(">", A, Ref("k")))>>)>>, "val"),
  PL("bodysig", <<InA, InB, SFor("i", IRange(Num(0), Num(3), Num(0)), <<SLet("Signal", "t", Bin("+", Bin("*", A, I), B)), Lamp("e", Bin("*", I, Num(2)), Num(0)), En("e", Bin(">", Ref("t"), Num(3)))>>)>>, "val"),
  PL("bodyshadow", <<InA, InB, SLet("Signal", "t", Bin("*", A, B)), SFor("i", IRange(Num(0), Num(2), Num(0)), <<SLet("Signal", "t", Bin("+", A, I)), Lamp("e", Bin("*", I, Num(2)), Num(0)), En("e", Bin(">", Ref("t"), Num(3)))>>),
                     SLet("Signal", "r", Bin("+", Ref("t"), Num(1)))>>, "val"),
  PL("bodycall", <<InA, SFunc("thr", <<[ty |-> "Signal", n |-> "s"], [ty |-> "int", n |-> "n"]>>, <<>>, Bin(">", Ref("s"), Bin("*", Ref("n"), Num(2)))),
                   SFor("i", IRange(Num(0), Num(3), Num(0)), <<SLet("Signal", "c", CallE("thr", <<A, I>>)), Lamp("e", Bin("*", I, Num(2)), Num(0)), En("e", Ref("c"))>>)>>, "val"),
  \* the body calls a function whose PARAMETER has the iterator's name, with an argument that differs from the iterator
  PL("bodycallshadow", <<InA, SFunc("thr", <<[ty |-> "Signal", n |-> "s"], [ty |-> "int", n |-> "i"]>>, <<>>, Bin(">", Ref("s"), Bin("*", Ref("i"), Num(2)))),
                   SFor("i", IRange(Num(0), Num(3), Num(0)), <<SLet("Signal", "c", CallE("thr", <<A, Bin("+", I, Num(4))>>)), Lamp("e", Bin("*", I, Num(2)), Num(0)), En("e", Ref("c"))>>)>>, "val"),
  PL("bodycallshadow", <<InA, SFunc("inc", <<[ty |-> "Signal", n |-> "i"]>>, <<>>, Bin("+", Ref("i"), Num(1))),
                   SFor("i", IRange(Num(1), Num(4), Num(0)), <<SLet("Signal", "v", CallE("inc", <<A>>)), Lamp("e", Bin("*", I, Num(2)), Num(0)), En("e", Bin(">", Ref("v"), I))>>)>>, "val"),
  PL("bodymem", <<SIn("d", "signal-M", 5), SIn("g", "signal-G", 0), SFor("i", IRange(Num(0), Num(2), Num(0)),
       <<SMem("m", "signal-M"), SWrite("m", Ref("d"), "when", Bin(">", Ref("g"), I), Num(0)), Lamp("e", Bin("*", I, Num(2)), Num(0)), En("e", Bin(">", ReadE("m"), Num(0)))>>)>>, "hist")
 }
\* the body READS an outer name and only afterwards declares a local of the same name (the read means the outer binding in
\* every iteration), for int, Signal and Entity names
Loops3 == {
  PL("readshadow", <<InA, SInt("n", Num(5)), SFor("i", IRange(Num(0), Num(3), Num(0)), <<Lamp("e", Bin("+", Ref("n"), I), Num(0)), SInt("n", Num(20)), En("e", Bin(">", A, Ref("n")))>>)>>, "val"),
  PL("readshadow", <<InA, SLet("Signal", "x", Bin("+", A, Num(1))), SFor("i", IRange(Num(0), Num(3), Num(0)),
       <<SLet("Signal", "y", Bin("+", Ref("x"), I)), SLet("Signal", "x", Bin("*", Ref("y"), Num(2))), Lamp("e", Bin("*", I, Num(2)), Num(0)), En("e", Bin(">", Ref("x"), Num(13)))>>)>>, "val")
 }
LoopAll == Loops1 \cup Loops2 \cup Loops3

FX == [ty |-> "Signal", n |-> "x"]  FN == [ty |-> "int", n |-> "n"]  FE == [ty |-> "Entity", n |-> "e"]
F1 == SFunc("f", <<FX, FN>>, <<>>, Bin("+", Bin("*", Ref("x"), Ref("n")), Num(1)))
Funcs == {
  PF("basic", <<InA, InB, F1, SLet("Signal", "r", CallE("f", <<A, Num(3)>>)), SLet("Signal", "s", CallE("f", <<B, Num(4)>>))>>, "val"),
  PF("basic", <<InA, InB, F1, SLet("Signal", "r", CallE("f", <<A, Num(3)>>)), SLet("Signal", "s", CallE("f", <<Ref("r"), Num(-2)>>))>>, "val"),
  PF("coerce", <<InA, F1, SLet("Signal", "r", CallE("f", <<Num(5), Num(3)>>)), SLet("Signal", "s", Bin("+", Ref("r"), A))>>, "val"),
  PF("coerce", <<InA, SInt("k", Num(4)), F1, SLet("Signal", "r", CallE("f", <<A, Bin("+", Ref("k"), Num(1))>>))>>, "val"),
  PF("expr", <<InA, InB, F1, SLet("Signal", "r", CallE("f", <<Bin("+", A, B), Num(2)>>))>>, "val"),
  PF("locals", <<InA, InB, SFunc("g", <<FX>>, <<SLet("Signal", "t", Bin("+", Ref("x"), Num(1))), SLet("Signal", "u", Bin("*", Ref("t"), Num(2)))>>, Bin("-", Ref("u"), Ref("t"))),
                 SLet("Signal", "t", Bin("*", A, Num(3))), SLet("Signal", "r", CallE("g", <<Ref("t")>>)), SLet("Signal", "u", Bin("+", Ref("t"), Ref("r")))>>, "val"),
  PF("locals", <<InA, InB, SFunc("g", <<FX>>, <<SInt("k", Num(7)), SLet("Signal", "t", Bin("+", Ref("x"), Ref("k")))>>, Ref("t")),
                 SInt("k", Num(2)), SLet("Signal", "r", CallE("g", <<A>>)), SLet("Signal", "s", Bin("*", B, Ref("k")))>>, "val"),
  PF("nested", <<InA, F1, SFunc("h", <<FX>>, <<SLet("Signal", "y", CallE("f", <<Ref("x"), Num(2)>>))>>, Bin("+", Ref("y"), Ref("x"))),
                 SLet("Signal", "r", CallE("h", <<A>>)), SLet("Signal", "s", CallE("h", <<Ref("r")>>))>>, "val"),
  PF("cond", <<InA, InB, SFunc("mx", <<FX, [ty |-> "Signal", n |-> "y"]>>, <<>>, Bin("+", CondE(Bin(">", Ref("x"), Ref("y")), Ref("x")), CondE(Bin("<=", Ref("x"), Ref("y")), Ref("y")))),
                 SLet("Signal", "r", CallE("mx", <<A, B>>))>>, "val"),
  PF("entity", <<InA, SFunc("mk", <<FN, [ty |-> "Signal", n |-> "c"]>>, <<Lamp("e", Ref("n"), Num(0)), En("e", Bin(">", Ref("c"), Ref("n")))>>, <<>>),
                 SExpr(CallE("mk", <<Num(0), A>>)), SExpr(CallE("mk", <<Num(2), A>>)), SExpr(CallE("mk", <<Num(4), Bin("+", A, Num(1))>>))>>, "val"),
  PF("entparam", <<InA, SFunc("cfg", <<FE, [ty |-> "Signal", n |-> "s"]>>, <<En("e", Bin(">", Ref("s"), Num(1)))>>, <<>>),
                   Lamp("l", Num(0), Num(0)), Lamp("k", Num(2), Num(0)), SExpr(CallE("cfg", <<Ref("l"), A>>)), SExpr(CallE("cfg", <<Ref("k"), Bin("-", A, Num(3))>>))>>, "val"),
  PF("inloop", <<InA, F1, SFor("i", IRange(Num(0), Num(3), Num(0)), <<SLet("Signal", "v", CallE("f", <<A, I>>)), Lamp("e", Bin("*", I, Num(2)), Num(0)), En("e", Bin(">", Ref("v"), Num(4)))>>)>>, "val"),
  PF("entclash", <<InA, InB, SFunc("mk", <<[ty |-> "Signal", n |-> "s"]>>, <<Lamp("lamp", Num(4), Num(0)), En("lamp", Bin(">", Ref("s"), Num(10)))>>, <<>>),
                   Lamp("lamp", Num(0), Num(0)), SExpr(CallE("mk", <<A>>)), En("lamp", Bin(">", B, Num(3)))>>, "val"),
  PF("entclash", <<InA, InB, SFunc("mk", <<[ty |-> "Signal", n |-> "s"]>>, <<Lamp("lamp", Num(4), Num(0)), En("lamp", Bin(">", Ref("s"), Num(10)))>>, <<>>),
                   SFunc("mk2", <<[ty |-> "Signal", n |-> "s"]>>, <<Lamp("lamp", Num(8), Num(0)), En("lamp", Bin("<", Ref("s"), Num(2)))>>, <<>>),
                   Lamp("lamp", Num(0), Num(0)), En("lamp", Bin(">", B, Num(3))), SExpr(CallE("mk", <<A>>)), SExpr(CallE("mk2", <<B>>))>>, "val"),
  PF("sigclash", <<InA, InB, SFunc("g", <<FX>>, <<SLet("Signal", "a", Bin("+", Ref("x"), Num(1)))>>, Bin("*", Ref("a"), Num(2))), SLet("Signal", "r", CallE("g", <<B>>)), SLet("Signal", "s", Bin("+", A, Ref("r")))>>, "val"),
  PF("mem", <<SIn("d", "signal-M", 5), SIn("g", "signal-G", 0), SIn("h", "signal-H", 0),
              SFunc("cell", <<[ty |-> "Signal", n |-> "v"], [ty |-> "Signal", n |-> "en"]>>, <<SMem("m", "signal-M"), SWrite("m", Ref("v"), "when", Bin(">", Ref("en"), Num(0)), Num(0))>>, ReadE("m")),
              SLet("Signal", "r", CallE("cell", <<Ref("d"), Ref("g")>>)), SLet("Signal", "s", CallE("cell", <<Ref("d"), Ref("h")>>))>>, "hist"),
  PF("shadowint", <<InA, InB, SInt("k", Num(10)), SFunc("f", <<[ty |-> "Signal", n |-> "k"]>>, <<>>, Bin("*", Ref("k"), Num(2))), SLet("Signal", "r", CallE("f", <<A>>)),
                    SLet("Signal", "s", Bin("+", B, Ref("k")))>>, "val"),
  PF("shadowint", <<InA, InB, SInt("k", Num(10)), SFunc("f", <<FX>>, <<SLet("Signal", "k", Bin("+", Ref("x"), Num(1)))>>, Bin("*", Ref("k"), Num(3))), SLet("Signal", "r", CallE("f", <<A>>)),
                    SLet("Signal", "s", Bin("+", B, Ref("k")))>>, "val"),
  PF("shadowint", <<InA, SFunc("f", <<[ty |-> "Signal", n |-> "i"]>>, <<>>, Bin("+", Ref("i"), Num(1))),
                    SFor("i", IRange(Num(1), Num(3), Num(0)), <<SLet("Signal", "v", CallE("f", <<A>>)), Lamp("e", Bin("*", I, Num(2)), Num(0)), En("e", Bin(">", Ref("v"), I))>>)>>, "val"),
  PF("shadowint", <<InA, SInt("n", Num(7)), SFunc("f", <<[ty |-> "Signal", n |-> "n"], [ty |-> "int", n |-> "k"]>>, <<>>, Bin("+", Bin("*", Ref("n"), Num(2)), Ref("k"))),
                    SLet("Signal", "r", CallE("f", <<A, Ref("n")>>))>>, "val"),
  PF("twocalls", <<InA, InB, SFunc("f", <<FX, FN>>, <<>>, Bin("*", Ref("x"), Bin("+", Ref("n"), Num(1)))), SLet("Signal", "r", CallE("f", <<A, Num(2)>>)), SLet("Signal", "s", CallE("f", <<B, Num(5)>>))>>, "val"),
  PF("twocalls", <<InA, SFunc("g", <<FN>>, <<>>, Lit(TName("signal-B"), Bin("*", Ref("n"), Num(10)))), SLet("Signal", "r", CallE("g", <<Num(2)>>)), SLet("Signal", "s", CallE("g", <<Num(5)>>)),
                   SLet("Signal", "t", Bin("+", A, Ref("s")))>>, "val"),
  PF("twocalls", <<InA, SFunc("h", <<FX, FN>>, <<>>, Bin("+", Ref("x"), Bin("+", Bin("%", Ref("n"), Num(4)), Bin(">>", Ref("n"), Num(1))))), SLet("Signal", "r", CallE("h", <<A, Num(9)>>)),
                   SLet("Signal", "s", CallE("h", <<A, Num(9)>>)), SLet("Signal", "t", CallE("h", <<A, Num(-9)>>))>>, "val"),
  \* a callee-local Memory named like a cell of the CALLER that the caller goes on using after the call
  PF("memclash", <<SIn("d", "signal-M", 5), SIn("g", "signal-G", 0), SIn("h", "signal-H", 0),
              SFunc("cell", <<[ty |-> "Signal", n |-> "v"], [ty |-> "Signal", n |-> "en"]>>, <<SMem("m", "signal-M"), SWrite("m", Ref("v"), "when", Bin(">", Ref("en"), Num(0)), Num(0))>>, ReadE("m")),
              SMem("m", "signal-M"), SWrite("m", Bin("+", Ref("d"), Num(1)), "when", Bin(">", Ref("h"), Num(0)), Num(0)),
              SLet("Signal", "r", CallE("cell", <<Ref("d"), Ref("g")>>)), SLet("Signal", "s", ReadE("m"))>>, "hist"),
  PF("memclash", <<SIn("d", "signal-M", 5), SIn("g", "signal-G", 0), SIn("h", "signal-H", 0),
              SFunc("cell", <<[ty |-> "Signal", n |-> "v"], [ty |-> "Signal", n |-> "en"]>>, <<SMem("m", "signal-M"), SWrite("m", Ref("v"), "when", Bin(">", Ref("en"), Num(0)), Num(0))>>, ReadE("m")),
              SMem("m", "signal-M"), SLet("Signal", "r", CallE("cell", <<Ref("d"), Ref("g")>>)),
              SWrite("m", Bin("+", Ref("d"), Num(1)), "when", Bin(">", Ref("h"), Num(0)), Num(0)), SLet("Signal", "s", ReadE("m"))>>, "hist")
 }
ASSUME PrintT(<<"NPROGS", Cardinality(LoopAll), Cardinality(Funcs)>>)
ASSUME JsonSerialize(IOEnv.GEN_OUT, SetToSeq({[p EXCEPT !.grp = "loop:" \o p.grp] : p \in LoopAll}) \o SetToSeq({[p EXCEPT !.grp = "func:" \o p.grp] : p \in Funcs}))
=============================================================================
