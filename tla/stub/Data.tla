---- MODULE Data ----
\* stub so that the library modules can be parsed on their own (setup); real Data.tla is generated per batch
EXTENDS Integers
Strict == FALSE
DomCap == 10
Seed == 0
Clauses == {}
BPs == << [entities |-> <<>>, wires |-> <<>>, extra |-> <<>>] >>
Recs == << [id |-> "stub", stmts |-> <<>>, u |-> 1] >>
Expect == <<>>
Traces == <<>>
====
