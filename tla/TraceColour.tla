---------------------------- MODULE TraceColour ----------------------------
(***************************************************************************)
(* Binding of the wire-colour design model to the code, both directions:   *)
(*  - hook H5 records every call of plan_wire_colors during a compilation  *)
(*    (input edges in order, locked colours; resulting assignment, flag,   *)
(*    conflicts);                                                          *)
(*  - instances enumerated by TLC (GenColour) are fed to the real function *)
(*    and its results recorded in the same format.                         *)
(* Data.tla: Traces == << [id, call |-> [edges, locked, assign, bip,       *)
(* conf]] >>, names replaced by their ranks in the code's string order.    *)
(* For every call the model is run on the recorded INPUT; the recorded     *)
(* RESULT is judged against what the compiler relies on (COL_* clauses);   *)
(* a result that differs from the model's while meeting those is reported  *)
(* as DIVERGE (information, not a violation).                              *)
(***************************************************************************)
EXTENDS Colour, Data, TLC, TLCExt

VARIABLE t_id
tvars == <<c_edges, c_locked, c_adj, c_assign, c_queue, c_bip, c_conf, t_id>>
TIDs == 1..Len(Traces)
Call(t) == Traces[t].call
FnOf(lst) == [n \in {x.n : x \in Range(lst)} |-> (CHOOSE x \in Range(lst) : x.n = n).c]
ASSUME \A t \in TIDs : TLCSet(t, 0)
TInit == t_id \in TIDs /\ CInit(Call(t_id).edges, FnOf(Call(t_id).locked))
TNext == CNext /\ UNCHANGED t_id
TSpec == TInit /\ [][TNext]_tvars

Rec == Call(t_id)
RA == FnOf(Rec.assign)
AdjPairs == {p \in (DOMAIN c_adj) \X (DOMAIN c_adj) : p[2] \in c_adj[p[1]]}
MonoRec == {p \in AdjPairs : p[1] \in DOMAIN RA /\ p[2] \in DOMAIN RA /\ RA[p[1]] = RA[p[2]]}
Fail(clause, info) == PrintT(<<"FAIL", Traces[t_id].id, clause, info>>)
Judge == Done =>
  /\ TLCSet(t_id, 1)
  /\ (DOMAIN RA = Pending) \/ Fail("COL_total", [uncoloured |-> Pending \ DOMAIN RA, extra |-> DOMAIN RA \ Pending])
  /\ (\A n \in DOMAIN RA \cap DOMAIN c_locked : RA[n] = c_locked[n]) \/ Fail("COL_lock", [n \in DOMAIN RA \cap DOMAIN c_locked |-> <<RA[n], c_locked[n]>>])
  /\ (Rec.bip => MonoRec = {}) \/ Fail("COL_sound", [same_colour |-> MonoRec, assign |-> RA])
  \* the model found a proper colouring, so one exists: the code must deliver a proper one too
  /\ (c_bip => MonoRec = {}) \/ Fail("COL_complete", [same_colour |-> MonoRec, assign |-> RA, model |-> c_assign])
  /\ (RA = c_assign /\ Rec.bip = c_bip /\ Rec.conf = c_conf) \/ PrintT(<<"DIVERGE", Traces[t_id].id, [code |-> RA, model |-> c_assign, bip |-> <<Rec.bip, c_bip>>, conf |-> <<Rec.conf, c_conf>>]>>)
\* the model's own guarantees at every state of every validated run
Safe == (LockRespected /\ TotalAtEnd /\ SoundAtEnd /\ FlagTruthful /\ ConflictsReal) \/ Fail("COL_model", [assign |-> c_assign])
Report(t) == <<"TRACE", Traces[t].id, TLCGet(t), 1, <<>> >>
Accepted == \A t \in TIDs : PrintT(Report(t))
=============================================================================
