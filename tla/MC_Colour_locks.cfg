SPECIFICATION MCSpec
CONSTANTS
  Srcs = {1, 2, 3, 4}
  Snks = {1, 2}
  Sigs = {1}
  Merges = {0, 1}
  MaxLen = 4
  MaxLocks = 2
  LockedFirst = TRUE
INVARIANT LockRespected
INVARIANT TotalAtEnd
INVARIANT SoundAtEnd
INVARIANT FlagTruthful
INVARIANT ConflictsReal
INVARIANT Complete
PROPERTY Monotone
CHECK_DEADLOCK FALSE
