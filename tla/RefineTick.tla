----------------------------- MODULE RefineTick -----------------------------
(***************************************************************************)
(* C04: self-referential writes iterate the written function exactly.      *)
(* The circuit never settles, so the property is a relation between ticks: *)
(*   exists L >= 1 : for all t >= W : value(t+L) = f(value(t))             *)
(* starting from the all-zero state, for every constant valuation of the   *)
(* other inputs and every reader of the cell.  Each (record, valuation) is *)
(* ONE linear behaviour of Ticks(p) ticks; v_hist records what each named  *)
(* reader shows at every tick (it multiplies nothing: behaviours are       *)
(* linear).  f is evaluated by the Facto interpreter on the written        *)
(* expression.  W (warm-up) covers the feed-forward latency of operands    *)
(* that are computed outside the loop.                                     *)
(***************************************************************************)
EXTENDS Refine

VARIABLE v_hist
tvars == <<v_pid, v_val, v_out, v_tick, v_settled, v_mem, v_lost, v_hist>>

LMax == 6
DMax == 4
Warm(p) == IF "warm" \in DOMAIN Recs[p] THEN Recs[p].warm ELSE 4
Ticks(p) == 8 * LMax + Warm(p)
Cell1(x) == <<[v |-> x, on |-> FALSE]>>
\* the written function, and what a reader n shows for cell value x
FW(p, vv, x) == World(p, 1, vv, Cell1(x))
F(p, vv, x) == LET w == FW(p, vv, x) IN IF w.undef \/ 1 \notin DOMAIN w.memN THEN [ok |-> FALSE, v |-> 0] ELSE [ok |-> TRUE, v |-> w.memN[1].v]
G(p, vv, n, x) == LET w == FW(p, vv, x) IN IF w.undef THEN [ok |-> FALSE, v |-> 0] ELSE [ok |-> TRUE, v |-> w.named[n].v]
ObsNow(p, n, o) ==
  LET u == U(p)  pt == ObsPoint(u, n) IN
  IF pt[1] = 0 THEN 0 ELSE ReadAt(u, pt, Desc(u, pt[1]).sig, o, InpOf(p, 1, v_val))
Names(p) == OutNamesT[p]
TInit == /\ v_pid \in RunnableT
         /\ v_val \in Prod(v_pid, 1)
         /\ v_out = InitOuts(v_pid)
         /\ v_tick = 0 /\ v_settled = FALSE /\ v_mem = <<>> /\ v_lost = FALSE
         /\ v_hist = [n \in Names(v_pid) |-> <<>>]
TTick == /\ v_tick < Ticks(v_pid)
         /\ v_out' = [k \in DOMAIN v_out |-> Step(UnitsOf(v_pid)[k], v_out[k], InpOf(v_pid, k, v_val))]
         /\ v_tick' = v_tick + 1
         /\ v_hist' = [n \in Names(v_pid) |-> Append(v_hist[n], ObsNow(v_pid, n, v_out'[1]))]
         /\ UNCHANGED <<v_pid, v_val, v_settled, v_mem, v_lost>>
TSpec == TInit /\ [][TTick]_tvars

TCountInit == v_tick = 0 => Bump(1, v_pid)
\* the relation on the direct reader, and every other reader as a (delayed) function of the cell
Iterates(p, vv, o, L) == \A t \in (Warm(p) + 1)..(Len(o) - L) : LET r == F(p, vv, o[t]) IN ~r.ok \/ o[t + L] = r.v
Follows(p, vv, o, h, n, d) == \A t \in (Warm(p) + 1)..(Len(o) - d) : LET r == G(p, vv, n, o[t]) IN ~r.ok \/ h[t + d] = r.v
TJudge ==
  (v_tick = Ticks(v_pid) /\ Supported(v_pid)) =>
    LET p == v_pid
        dr == DirectReader(p, 1)
    IN IF dr = "" \/ ObsPoint(U(p), dr)[1] = 0
       THEN Fail(p, "C20_exposed", [name |-> dr])
       ELSE LET o == v_hist[dr] IN
            /\ Bump(0, p)
            /\ Track(p, o[Len(o)]) /\ Track(p, o[Len(o) - 1])
            /\ ((\E L \in 1..LMax : Iterates(p, v_val, o, L))
                \/ Fail(p, "C04_iterates", [val |-> v_val, reader |-> dr, seen |-> SubSeq(o, 1, 24)]))
            /\ \A n \in Names(p) \ {dr} :
                 (ObsPoint(U(p), n)[1] = 0) \/ (\E d \in 0..DMax : Follows(p, v_val, o, v_hist[n], n, d))
                 \/ Fail(p, "C04_reader", [val |-> v_val, reader |-> n, cell |-> SubSeq(o, 1, 16), seen |-> SubSeq(v_hist[n], 1, 16)])
=============================================================================
