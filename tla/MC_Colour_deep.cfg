SPECIFICATION MCSpec
CONSTANTS
  Srcs = {1, 2, 3}
  Snks = {1, 2}
  Sigs = {1, 2}
  Merges = {0, 1, 2}
  MaxLen = 3
  MaxLocks = 1
  LockedFirst = TRUE
INVARIANT LockRespected
INVARIANT TotalAtEnd
INVARIANT SoundAtEnd
INVARIANT FlagTruthful
INVARIANT ConflictsReal
INVARIANT Complete
PROPERTY Monotone
PROPERTY Terminates
CHECK_DEADLOCK FALSE
