------------------------------ MODULE TraceCse ------------------------------
(***************************************************************************)
(* Binding of the CSE design model to ir/optimizer.CSEOptimizer, both      *)
(* directions (hook H6 events of real compilations; TLC-enumerated         *)
(* operation sequences of GenCse run through the real optimizer).          *)
(* Data.tla: Traces == << [id, call |-> [ops, repl, after]] >> with node   *)
(* ids replaced by their positions in `ops`; repl = << [a, b] >>; after =   *)
(* the graph the optimizer returned, as a sequence aligned with ops (a     *)
(* removed node appears as a leaf marked gone).                            *)
(* The model is run on the recorded input; the recorded RESULT is judged:  *)
(*   CSE_sound      only nodes that denote the same value were merged      *)
(*   CSE_partition  every node kept or replaced, never both                *)
(*   CSE_rewire     kept nodes refer to kept nodes and denote what they    *)
(*                  denoted before                                         *)
(* A result that differs from the model's (fewer merges) is DIVERGE (info).*)
(***************************************************************************)
EXTENDS Cse, Data, TLCExt

VARIABLE t_id
tvars == <<s_ops, s_i, s_cache, s_repl, s_kept, t_id>>
TIDs == 1..Len(Traces)
Call(t) == Traces[t].call
ASSUME \A t \in TIDs : TLCSet(t, 0)
TInit == t_id \in TIDs /\ SInit(Call(t_id).ops)
TNext == SNext /\ UNCHANGED t_id
TSpec == TInit /\ [][TNext]_tvars

Rec == Call(t_id)
RRepl == [a \in {x.a : x \in Range(Rec.repl)} |-> (CHOOSE x \in Range(Rec.repl) : x.a = a).b]
RKept == {i \in DOMAIN Rec.after : ~("gone" \in DOMAIN Rec.after[i])}
Fail(clause, info) == PrintT(<<"FAIL", Traces[t_id].id, clause, info>>)
Judge == SDone =>
  /\ TLCSet(t_id, 1)
  /\ MergeSoundFor(s_ops, RRepl) \/ Fail("CSE_sound", [merged |-> RRepl, nodes |-> [a \in DOMAIN RRepl |-> <<s_ops[a], s_ops[RRepl[a]]>>]])
  /\ (RKept \cup DOMAIN RRepl = DOMAIN s_ops /\ RKept \cap DOMAIN RRepl = {}) \/ Fail("CSE_partition", [kept |-> RKept, replaced |-> DOMAIN RRepl])
  /\ (Closed(Rec.after, RKept) /\ SameAcross(s_ops, Rec.after, RKept)) \/ Fail("CSE_rewire", [kept |-> RKept, after |-> Rec.after])
  /\ (RRepl = s_repl) \/ PrintT(<<"DIVERGE", Traces[t_id].id, [code |-> RRepl, model |-> s_repl]>>)
Safe == (MergeSound /\ Partition /\ RewireSound) \/ Fail("CSE_model", [repl |-> s_repl])
Report(t) == <<"TRACE", Traces[t].id, TLCGet(t), 1, <<>> >>
Accepted == \A t \in TIDs : PrintT(Report(t))
=============================================================================
