----------------------------- MODULE GenScalar -----------------------------
(***************************************************************************)
(* Generator specification for C01 / C20 / C10 / C13 (stateless scalar     *)
(* programs).  The exhaustive core is a constant-level set; TLC enumerates *)
(* it, renders every program with the specification's own Render and       *)
(* writes AST + text as JSON (IOEnv.GEN_OUT).                              *)
(***************************************************************************)
EXTENDS Facto, FiniteSetsExt, SequencesExt, Json, IOUtils

A == Ref("a")  B == Ref("b")  C == Ref("c")
In3(da, db, dc) == <<SIn("a", "signal-A", da), SIn("b", "signal-B", db), SIn("c", "signal-C", dc)>>
P(grp, stmts) == [grp |-> grp, stmts |-> stmts, src |-> Render(stmts)]
R(e) == SLet("Signal", "r", e)

\* every ordered pair of binary operators in both tree shapes, minimal parentheses
Pairs == {P("pair", In3(5, -3, 7) \o <<R(Bin(o2, Bin(o1, A, B), C))>>) : o1 \in BinOps, o2 \in BinOps}
    \cup {P("pair", In3(5, -3, 7) \o <<R(Bin(o1, A, Bin(o2, B, C)))>>) : o1 \in BinOps, o2 \in BinOps}

\* logical operators over inputs whose DECLARED value is 0/1 (the compiler looks at declared values)
Decl == {P("decl", In3(da, db, 7) \o <<R(Bin(o2, Bin(o1, A, B), C))>>) : o1 \in LogOps, o2 \in {"+", "*", "&&", "||", "=="}, da \in {0, 1, 5}, db \in {0, 1, -3}}

\* operand kinds: typed virtual, typed item, untyped, int constant, int variable, same ref twice
ItemIn == SIn("p", "iron-plate", 4)
UntIn == SIn("u", "", 6)
KindLeft == {<<"virt", <<SIn("a", "signal-A", 5)>>, A>>, <<"item", <<ItemIn>>, Ref("p")>>, <<"unt", <<UntIn>>, Ref("u")>>,
             <<"const", <<>>, Num(6)>>, <<"neg", <<>>, Num(-2)>>, <<"intvar", <<SInt("k", Num(3))>>, Ref("k")>>}
KindRight == {<<"virt", <<SIn("b", "signal-B", -3)>>, B>>, <<"item", <<SIn("q", "copper-plate", 2)>>, Ref("q")>>,
              <<"unt", <<SIn("w", "", 9)>>, Ref("w")>>, <<"const", <<>>, Num(3)>>, <<"neg", <<>>, Num(-2)>>,
              <<"intvar", <<SInt("j", Num(2))>>, Ref("j")>>}
IsSigKind(x) == x[1] \in {"virt", "item", "unt"}
Kinds == {P("kind", l[2] \o r[2] \o <<R(Bin(op, l[3], r[3]))>>) : op \in BinOps, l \in KindLeft, r \in {r \in KindRight : TRUE}}
Kinds1 == {p \in Kinds : \E i \in DOMAIN p.stmts : p.stmts[i].k = "in"}     \* at least one signal operand
SameRef == {P("same", <<SIn("a", "signal-A", 5)>> \o <<R(Bin(op, A, A))>>) : op \in BinOps}

\* unary / projection / typed literal / .type / conditional value forms
TA == TName("signal-A")  TX == TName("signal-X")  TI == TName("iron-plate")
Forms == {
   Un("-", A), Un("!", A), Un("+", A), Un("-", Un("-", A)), Un("!", Un("!", A)), Un("-", Bin("+", A, B)), Un("!", Bin(">", A, B)),
   Bin("*", Un("-", A), B), Bin("**", Un("-", A), Num(2)), Bin("-", A, Un("-", B)),
   Proj(A, TX), Proj(Bin("+", A, B), TX), Proj(A, TI), Proj(Proj(A, TX), TI), Proj(A, TOf("b")), Bin("+", Proj(A, TX), B),
   Bin("+", B, Proj(A, TX)), Bin(">", Proj(A, TX), Num(2)), Proj(Bin(">", A, Num(2)), TX), Proj(Num(7), TX),
   Lit(TX, Num(4)), Lit(TX, Bin("-", Bin("*", Num(5), Num(2)), Num(9))), Lit(TOf("b"), Num(42)), Lit(TI, Bin("+", Bin("/", Num(100), Num(2)), Num(50))), Lit(TX, Un("-", Num(3))), Bin("+", Lit(TX, Num(4)), A),
   Bin("+", A, Lit(TX, Num(4))),
   \* sums of anonymous typed literals of ONE type (folded into one constant), also next to an input of that type
   Bin("+", Lit(TX, Num(3)), Lit(TX, Num(4))), Bin("+", Bin("+", Lit(TX, Num(3)), Lit(TX, Num(4))), Lit(TX, Num(5))), Bin("+", Lit(TX, Num(2147483647)), Lit(TX, Num(1))),
   Bin("+", Lit(TX, Num(3)), Lit(TX, Num(-3))), Bin("+", Lit(TA, Num(3)), A), Bin("+", Bin("+", Lit(TA, Num(3)), A), Lit(TA, Num(4))), Bin("-", Lit(TX, Num(3)), Lit(TX, Num(4))),
   Bin("*", Bin("+", Lit(TX, Num(3)), Lit(TX, Num(4))), A),
   CondE(Bin(">", A, Num(2)), Num(1)), CondE(Bin(">", A, Num(2)), Num(7)), CondE(Bin(">", A, Num(2)), B), CondE(Bin(">", A, B), A),
   CondE(Bin("==", A, B), C), CondE(Bin("<=", A, Num(0)), Bin("+", B, C)), CondE(Bin("!=", A, B), Num(-5)),
   CondE(Bin(">", Bin("+", A, B), Num(2)), C), Bin("+", CondE(Bin(">", A, Num(2)), B), C),
   Bin("+", CondE(Bin(">", A, Num(2)), B), CondE(Bin("<=", A, Num(2)), C)),
   CondE(Bin("&&", Bin(">", A, Num(2)), Bin("<", B, Num(5))), C), CondE(Bin("||", Bin(">", A, Num(2)), Bin("<", B, Num(5))), C),
   CondE(Bin("<", A, Num(0)), Bin("-", Num(0), Num(1))), Bin("+", CondE(Bin(">", A, Num(0)), Num(1)), CondE(Bin("<", A, Num(0)), Bin("-", Num(0), Num(1)))),
   CondE(Bin(">", A, Num(2)), Bin("*", Num(3), Num(4))),
   CondE(Bin(">", A, Num(2)), Lit(TX, Num(3))), CondE(Bin(">", A, Num(0)), Proj(B, TX)),
   Bin("&&", Bin(">", A, Num(2)), Bin("<", B, Num(5))), Bin("||", Bin(">", A, Num(2)), Bin("<", B, Num(5))),
   Bin("&&", A, B), Bin("||", A, B), Bin("&&", Bin("||", A, B), C), Bin("||", Bin("&&", A, B), C), Un("!", Bin("&&", A, B)),
   Bin("+", Bin("&&", A, B), Num(1)), Bin("*", Bin(">", A, B), C),
   Bin("<", Bin("<", A, B), C), Bin("==", Bin("==", A, B), Num(1)), Bin("-", Bin("-", A, B), C), Bin("-", A, Bin("-", B, C)),
   Bin("/", Bin("/", A, B), C), Bin("/", A, Bin("/", B, C)), Bin("**", A, Bin("**", Num(2), Num(3))), Bin("**", Bin("**", A, Num(2)), Num(3)),
   Bin("<<", Bin("<<", A, Num(1)), Num(2)), Bin(">>", A, Bin("<<", Num(1), Num(2))), Bin("%", Bin("*", A, B), C),
   Bin("+", NumB(255, 16), A), Bin("AND", A, NumB(15, 2)), Bin("OR", A, NumB(64, 8)), Bin("XOR", A, NumB(2147483647, 16)),
   Bin("+", A, Num(2147483647)), Bin("*", A, Num(65536)), Bin("-", Num(0), A), Bin("/", Num(100), A), Bin("%", Num(-7), A),
   Bin("**", Num(2), A), Bin("<<", Num(1), A), Bin(">>", Num(-8), A), Bin(">", Num(3), A), Bin("==", Num(0), A)
 }
\* conditions the compiler evaluates itself (constant comparisons) and conditions given as the NAME of a comparison result
CForms == {CondE(Bin(">", Num(3), Num(2)), B), CondE(Bin(">", Num(2), Num(3)), B), CondE(Bin(">", Num(3), Num(2)), Num(7)), CondE(Bin("==", Num(2), Num(3)), Num(7)),
           CondE(Bin(">", Ref("k"), Num(2)), B), CondE(Bin("<=", Ref("k"), Num(2)), Bin("+", B, C))}
FormsP == {P("form", In3(5, -3, 7) \o <<R(e)>>) : e \in Forms}
     \cup {P("form", In3(5, -3, 7) \o <<SInt("k", Num(3)), R(e)>>) : e \in CForms}
     \cup {P("form", In3(5, -3, 7) \o <<SLet("Signal", "g", Bin(">", A, Num(2))), R(CondE(Ref("g"), v))>>) : v \in {B, Num(5), Bin("+", B, C)}}
     \cup {P("form", In3(5, -3, 7) \o <<SLet("Signal", "g", Bin("&&", Bin(">", A, Num(2)), Bin("<", B, Num(5)))), R(CondE(Ref("g"), C)), SLet("Signal", "h", Bin("+", Ref("g"), Num(1)))>>)}

\* sharing patterns: values used twice, same-type triangles, wire-merge chains, multiple outputs
Share == {
  P("share", In3(5, -3, 7) \o <<SLet("Signal", "t", Bin("+", A, B)), SLet("Signal", "r", Bin("*", Ref("t"), Ref("t")))>>),
  P("share", In3(5, -3, 7) \o <<SLet("Signal", "t", Bin("*", A, B)), SLet("Signal", "r", Bin("+", Ref("t"), C)), SLet("Signal", "s", Bin("-", Ref("t"), C))>>),
  P("share", <<SIn("a", "signal-A", 5), SIn("b", "signal-A", -3), SIn("c", "signal-A", 7)>> \o
             <<SLet("Signal", "x", Bin("*", A, B)), SLet("Signal", "y", Bin("*", B, C)), SLet("Signal", "z", Bin("*", A, C))>>),
  P("share", <<SIn("a", "signal-A", 5), SIn("b", "signal-A", -3)>> \o <<R(Bin("+", A, B))>>),
  P("share", <<SIn("a", "signal-A", 5), SIn("b", "signal-A", -3), SIn("c", "signal-A", 7)>> \o <<R(Bin("+", Bin("+", A, B), C))>>),
  P("share", <<SIn("a", "signal-A", 5), SIn("b", "signal-A", -3), SIn("c", "signal-A", 7), SIn("d", "signal-A", 2)>> \o
             <<R(Bin("+", Bin("+", Bin("+", A, B), C), Ref("d")))>>),
  P("share", <<SIn("a", "signal-A", 5), SIn("b", "signal-A", -3)>> \o <<R(Bin("-", A, B))>>),
  P("share", <<SIn("a", "signal-A", 5), SIn("b", "signal-A", -3)>> \o <<SLet("Signal", "s", Bin("+", A, B)), R(Bin("*", Ref("s"), A))>>),
  P("share", <<SIn("a", "signal-A", 5)>> \o <<R(Bin("+", A, A))>>),
  P("share", <<SIn("a", "signal-A", 5)>> \o <<R(Bin("+", Bin("+", A, A), A))>>),
  P("share", In3(5, -3, 7) \o <<SLet("Signal", "x", Bin("+", A, Num(1))), SLet("Signal", "y", Bin("+", A, Num(1))), R(Bin("*", Ref("x"), Ref("y")))>>),
  P("share", In3(5, -3, 7) \o <<SLet("Signal", "x", Bin(">", A, Num(0))), SLet("Signal", "y", CondE(Bin(">", A, Num(0)), A)), SLet("Signal", "z", CondE(Bin(">", A, Num(0)), Num(1)))>>),
  P("share", In3(5, -3, 7) \o <<SLet("Signal", "x", Proj(Bin("+", A, B), TX)), SLet("Signal", "y", Proj(Bin("+", A, B), TName("signal-Y")))>>),
  P("share", In3(5, -3, 7) \o <<SInt("k", Bin("*", Num(3), Num(4))), SLet("Signal", "x", Bin("+", A, Ref("k"))), SLet("Signal", "y", Bin("+", Ref("x"), Ref("k")))>>),
  P("share", In3(5, -3, 7) \o <<SLet("Signal", "x", Num(5)), SLet("Signal", "y", Bin("+", Ref("x"), A)), SLet("Signal", "z", Bin("+", Ref("x"), Num(1)))>>),
  P("share", In3(5, -3, 7) \o <<SLet("Signal", "x", Bin("+", Num(2), Num(3))), SLet("Signal", "y", Bin("*", Ref("x"), A))>>),
  P("share", In3(5, -3, 7) \o <<SLet("Signal", "x", A), SLet("Signal", "y", Bin("+", Ref("x"), B))>>),
  P("share", In3(5, -3, 7) \o <<SInt("k", Num(7)), SLet("Signal", "base", Proj(Bin("*", Ref("k"), Num(2)), TName("signal-B"))), SLet("Signal", "limit", Bin("+", Ref("base"), Num(3))),
                                SLet("Signal", "scaled", Bin("*", A, Ref("base")))>>),
  P("share", In3(5, -3, 7) \o <<SInt("k", Num(7)), SLet("Signal", "base", Proj(Bin("*", Ref("k"), Num(2)), TName("signal-B"))), SLet("Signal", "limit", Bin("+", Ref("base"), Num(3))),
                                SLet("Signal", "over", Bin(">", A, Ref("base")))>>),
  P("share", In3(5, -3, 7) \o <<SLet("Signal", "base", Lit(TName("signal-B"), Num(14))), SLet("Signal", "limit", Bin("*", Ref("base"), Num(3))), SLet("Signal", "scaled", Bin("-", A, Ref("base")))>>),
  P("share", In3(5, -3, 7) \o <<SLet("Signal", "x", Bin("*", A, Num(2))), SLet("Signal", "z", Bin("+", Ref("x"), Num(1))), SLet("Signal", "show", Ref("x"))>>),
  P("share", In3(5, -3, 7) \o <<SLet("Signal", "show", Ref("a")), SLet("Signal", "z", Bin("+", A, Num(1)))>>),
  P("share", In3(5, -3, 7) \o <<SLet("Signal", "s", Bin("+", A, B)), SLet("Signal", "z", Bin("*", Ref("s"), Num(2))), SLet("Signal", "p", Ref("s")), SLet("Signal", "q", Ref("s"))>>),
  P("share", In3(5, -3, 7) \o <<SLet("Signal", "s", Bin("+", A, B)), SLet("Signal", "p", Ref("s")), SLet("Signal", "q", Ref("p")), SLet("Signal", "z", Bin("*", Ref("q"), Num(2)))>>),
  P("share", In3(5, -3, 7) \o <<SLet("Signal", "x", Bin("+", Bin("*", A, Num(2)), B)), SLet("Signal", "y", Bin("+", Bin("*", A, Num(3)), B))>>),
  P("share", In3(5, -3, 7) \o <<SLet("Signal", "x", Bin("+", Bin("*", A, Num(2)), B)), SLet("Signal", "y", Bin("+", Bin("*", C, Num(3)), B))>>),
  P("share", In3(5, -3, 7) \o <<SLet("Signal", "d", Bin("+", Bin("*", A, B), Bin("*", A, C))), SLet("Signal", "e", Bin("-", Bin("*", A, B), Bin("*", A, C)))>>)
 }

\* logic over comparisons: every tree of 3 and 4 comparison leaves, every mix of && and ||, explicit grouping both ways
\* (conditions of this shape are folded into one multi-condition decider), as a value and as the condition of a conditional value
L1 == Bin(">", A, Num(2))  L2 == Bin(">", B, Num(5))  L3 == Bin("<", C, Num(3))  L4 == Bin(">", Num(4), A)
Logic3 == {Bin(o2, Bin(o1, L1, L2), L3) : o1 \in LogOps, o2 \in LogOps} \cup {Bin(o1, L1, Bin(o2, L2, L3)) : o1 \in LogOps, o2 \in LogOps}
Logic4 == {Bin(o2, Bin(o1, L1, L2), Bin(o3, L3, L4)) : o1 \in LogOps, o2 \in LogOps, o3 \in LogOps}
       \cup {Bin(o1, L1, Bin(o2, Bin(o3, L2, L3), L4)) : o1 \in LogOps, o2 \in LogOps, o3 \in LogOps}
LogicP == {P("logic", In3(5, -3, 7) \o <<R(e)>>) : e \in Logic3 \cup Logic4}
     \cup {P("logic", In3(5, -3, 7) \o <<R(CondE(e, C))>>) : e \in Logic3}
     \cup {P("logic", In3(5, -3, 7) \o <<R(Un("!", e))>>) : e \in Logic3}
     \cup {P("logic", In3(5, -3, 7) \o <<SLet("Signal", "t", e), R(Bin("+", Ref("t"), A))>>) : e \in Logic3}
\* user identifiers may legally look like the compiler's own node names
OddNames == <<"arith_total", "decider_hot", "const_k", "wire_merge_x", "mem_v", "bundle_const_1", "arith_1", "decider_2_folded", "anchor_r", "__v1", "r_output_anchor">>
NamesP == {P("names", In3(5, -3, 7) \o <<SLet("Signal", OddNames[i], e)>>) : i \in {1, 2, 3, 4, 5, 6, 7, 8, 9, 11}, e \in {Bin("+", A, B), Bin(">", A, Num(2)), A, Num(7), Proj(A, TX)}}
     \cup {P("names", <<SIn("const_in", "signal-A", 5), SIn("arith_in", "", 7), SLet("Signal", "decider_out", Bin("*", Ref("const_in"), Ref("arith_in")))>>),
           P("names", <<SIn("const_in", "signal-A", 5), SLet("Signal", "arith_1", Bin("+", Ref("const_in"), Num(1))), SLet("Signal", "arith_2", Bin("*", Ref("arith_1"), Num(2)))>>)}
TwoConsumers == {
  P("twocons", <<SLet("Signal", "x", Proj(Num(50), TA)), SLet("Signal", "y", Proj(Num(30), TA)), SLet("Signal", "p", Proj(Bin("*", Ref("x"), Ref("y")), TName("signal-P"))),
                 SLet("Signal", "q", Proj(Bin("-", Ref("x"), Ref("y")), TName("signal-Q")))>>),
  P("twocons", <<SIn("a", "signal-A", 5), SIn("b", "signal-A", -3), SLet("Signal", "p", Proj(Bin("*", A, B), TName("signal-P"))), SLet("Signal", "q", Proj(Bin("-", A, B), TName("signal-Q")))>>),
  P("twocons", <<SIn("a", "signal-A", 5), SIn("b", "signal-A", -3), SLet("Signal", "p", Bin("*", A, B)), SLet("Signal", "q", Bin("-", A, B)), SLet("Signal", "w", Bin("/", A, B))>>)
 }
\* operand SHAPES of the logical operators (the compiler recognises "already 0/1" operands and skips the != 0 normalisation):
\* every arithmetic operator with a small constant on either side, negations, products of comparisons, under && and || with a
\* comparison / a plain signal / a negation as the other operand, on both sides, and under !
SmallK == {0, 1, 2, -1}
BShapes == {Bin(op, A, Num(k)) : op \in ArithOps, k \in SmallK} \cup {Bin(op, Num(k), A) : op \in {"-", "/", "%", "<<", ">>", "**", "AND"}, k \in {1, 2}}
           \cup {Un("!", A), Un("-", A), Bin("*", Bin(">", A, Num(0)), Bin("<", C, Num(9))), Bin("+", Bin(">", A, Num(0)), Num(0)), Bin("+", Bin(">", A, Num(0)), Bin("<", C, Num(9))),
                 Bin("-", Num(1), Bin(">", A, Num(0))), CondE(Bin(">", A, Num(0)), Num(1)), CondE(Bin(">", A, Num(0)), Num(2)), Bin("==", Bin("%", A, Num(2)), Num(1))}
BOthers == {Bin(">", B, Num(0)), B, Un("!", B)}
BoolShapeP == {P("bshape", In3(5, -3, 7) \o <<R(Bin(lo, s, t))>>) : lo \in LogOps, s \in BShapes, t \in BOthers}
         \cup {P("bshape", In3(5, -3, 7) \o <<R(Bin(lo, Bin(">", B, Num(0)), s))>>) : lo \in LogOps, s \in BShapes}
         \cup {P("bshape", In3(5, -3, 7) \o <<R(Un("!", s))>>) : s \in BShapes}
         \cup {P("bshape", In3(5, -3, 7) \o <<R(CondE(s, B))>>) : s \in BShapes}
\* NEAR-DUPLICATES: two statements that differ in exactly one attribute (operator, one operand, operand order, output type,
\* output value, copy-vs-constant output) - in both orders, observed directly and through a consumer. Anything that identifies
\* operations by a key (CSE, caches, de-duplication) must keep them apart.
NearD == <<Bin(">", A, Num(2)), Bin(">=", A, Num(2)), Bin(">", A, Num(3)), Bin(">", B, Num(2)), CondE(Bin(">", A, Num(2)), B), CondE(Bin(">", A, Num(2)), Num(1)),
           CondE(Bin(">", A, Num(2)), Num(7)), CondE(Bin(">", A, Num(2)), A), CondE(Bin(">", A, Num(2)), Proj(B, TX)), Bin(">", Num(2), A)>>
NearA == <<Bin("+", A, B), Bin("-", A, B), Bin("-", B, A), Bin("+", A, C), Bin("*", A, B), Proj(Bin("+", A, B), TX), Bin("+", A, Num(2)), Bin("+", A, Num(3)),
           Bin("-", Num(2), A), Bin("-", A, Num(2)), Bin("%", A, Num(2)), Bin("AND", A, Num(1)), Bin("+", B, A)>>
NearPairs(fs) == {<<fs[i], fs[j]>> : i \in DOMAIN fs, j \in DOMAIN fs} \ {<<fs[i], fs[i]>> : i \in DOMAIN fs}
NearP == {P("near", In3(5, -3, 7) \o <<SLet("Signal", "x", pr[1]), SLet("Signal", "y", pr[2])>>) : pr \in NearPairs(NearD) \cup NearPairs(NearA)}
    \cup {P("near", In3(5, -3, 7) \o <<SLet("Signal", "x", pr[1]), SLet("Signal", "y", pr[2]), SLet("Signal", "z", Bin("+", Bin("*", Ref("x"), Num(100)), Ref("y")))>>) : pr \in NearPairs(NearD)}
\* both operand ORDERS of every binary operator in one program, on one output type (commutative or not is the language's business)
SwapP == {P("swap", In3(5, -3, 7) \o <<SLet("Signal", "x", Proj(Bin(op, A, B), TX)), SLet("Signal", "y", Proj(Bin(op, B, A), TX))>>) : op \in BinOps}
    \cup {P("swap", <<SIn("a", "signal-A", 5), SIn("b", "signal-A", -3)>> \o <<SLet("Signal", "x", Bin(op, A, B)), SLet("Signal", "y", Bin(op, B, A))>>) : op \in BinOps}
    \cup {P("swap", In3(5, -3, 7) \o <<SLet("Signal", "x", Proj(Bin(op, A, Num(2)), TX)), SLet("Signal", "y", Proj(Bin(op, Num(2), A), TX))>>) : op \in BinOps}
All == SwapP \cup Pairs \cup Decl \cup Kinds1 \cup SameRef \cup FormsP \cup Share \cup LogicP \cup NamesP \cup TwoConsumers \cup BoolShapeP \cup NearP
Out == SetToSeq(All)
ASSUME PrintT(<<"NPROGS", Cardinality(All)>>)
ASSUME JsonSerialize(IOEnv.GEN_OUT, Out)
=============================================================================
