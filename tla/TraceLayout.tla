---------------------------- MODULE TraceLayout ----------------------------
(***************************************************************************)
(* Trace validation of hook events H2 (solver calls, routing attempts)     *)
(* against the Layout design model.  Data.tla: Traces == << [id, outcome   *)
(* ("ok" | "rejected"), events |-> << [ev |-> "solve", strategy, status] | *)
(* [ev |-> "route", attempt, ok] >>] >>.  Accept and Exhausted are the     *)
(* model's unlogged decisions (silent steps, at most one between events).  *)
(* Accepted = every event consumed and the model ends in the phase the     *)
(* compile outcome shows (blueprint emitted <=> done, refused <=> error).  *)
(***************************************************************************)
EXTENDS Layout, Data, TLC, TLCExt

VARIABLES t_id, t_l
tvars == <<l_attempt, l_phase, l_next, l_quick, l_found, l_last, t_id, t_l>>
TLadder == <<"Strict", "Relaxed span (+33%)", "Larger area (+50%)", "Both relaxed", "Very relaxed", "Unlimited (rely on relays)">>
TIDs == 1..Len(Traces)
Ev(t) == Traces[t].events
ASSUME \A t \in TIDs : TLCSet(t, 0)
TInit == t_id \in TIDs /\ t_l = 1 /\ LInit
Cur == Ev(t_id)[t_l]
Step == t_l' = t_l + 1 /\ UNCHANGED t_id
Solved(status) == status \in {"OPTIMAL", "FEASIBLE"}
TSolve == /\ t_l <= Len(Ev(t_id)) /\ Cur.ev = "solve" /\ Step
          /\ \/ (QuickSolve(Solved(Cur.status)) /\ Cur.strategy = Ladder[1])
             \/ (Solve(Solved(Cur.status)) /\ l_next <= Len(Ladder) /\ Cur.strategy = Ladder[l_next])
TRoute == /\ t_l <= Len(Ev(t_id)) /\ Cur.ev = "route" /\ Step
          /\ Cur.attempt = l_attempt /\ Route(Cur.ok)
TSilent == (Accept \/ Exhausted \/ Trivial) /\ UNCHANGED <<t_id, t_l>>
TNext == TSolve \/ TRoute \/ TSilent
TSpec == TInit /\ [][TNext]_tvars
EndOK == t_l > Len(Ev(t_id)) /\ ((Traces[t_id].outcome = "ok" /\ l_phase = "done") \/ (Traces[t_id].outcome = "rejected" /\ l_phase = "error"))
Score == (t_l - 1) + (IF EndOK THEN 1000 ELSE 0)
Progress == TLCSet(t_id, IF Score > TLCGet(t_id) THEN Score ELSE TLCGet(t_id))
Safe == (AttemptsBounded /\ DoneMeansRouted /\ ErrorMeansFailed /\ RouteNeedsSolution)
        \/ PrintT(<<"FAIL", Traces[t_id].id, "C08_layout_invariant", [phase |-> l_phase, attempt |-> l_attempt]>>)
Report(t) == LET sc == TLCGet(t)  got == sc % 1000 IN
             <<"TRACE", Traces[t].id, IF sc >= 1000 THEN got ELSE (IF got = Len(Ev(t)) THEN got - 1 ELSE got), Len(Ev(t)),
               IF got < Len(Ev(t)) THEN Ev(t)[got + 1] ELSE [ended_in |-> "a phase that contradicts the compile outcome"] >>
Accepted == \A t \in TIDs : PrintT(Report(t))
=============================================================================
