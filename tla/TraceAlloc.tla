----------------------------- MODULE TraceAlloc -----------------------------
(***************************************************************************)
(* Trace validation of hook events H3 against the Alloc design model.      *)
(* Data.tla: Traces == << [id, stmts, events |-> << [ev, pool | signal,    *)
(* index, warned] >>] >>.  The explicit signal names are computed HERE     *)
(* from the program's AST (not taken from the hook).  Every event must be  *)
(* explained by the corresponding model action; acceptance = every event   *)
(* of every trace consumed (register per trace).                           *)
(***************************************************************************)
EXTENDS Alloc, Data, Facto, TLCExt

VARIABLES t_id, t_l
tvars == <<a_explicit, a_pool, a_idx, a_map, a_warned, a_built, t_id, t_l>>
TIDs == 1..Len(Traces)
Ev(t) == Traces[t].events

Reg(t) == t
ASSUME \A t \in TIDs : TLCSet(Reg(t), 0)
TInit == /\ t_id \in TIDs /\ t_l = 1
         /\ AInit(ExplicitOf(Traces[t_id].stmts))
IsEvent(name) == t_l <= Len(Ev(t_id)) /\ Ev(t_id)[t_l].ev = name /\ t_l' = t_l + 1 /\ UNCHANGED t_id
TBuildPool == IsEvent("pool") /\ BuildPool(Ev(t_id)[t_l].pool)
TAllocate == /\ IsEvent("alloc") /\ Allocate
             /\ a_map'[Len(a_map')] = Ev(t_id)[t_l].signal       \* the code handed out what the model says
             /\ a_warned' = Ev(t_id)[t_l].warned
TNext == TBuildPool \/ TAllocate
TSpec == TInit /\ [][TNext]_tvars
\* highest position reached per trace (acceptance)
Progress == TLCSet(Reg(t_id), IF t_l > TLCGet(Reg(t_id)) THEN t_l ELSE TLCGet(Reg(t_id)))
TReserved == {"signal-W"}
TWildcards == {"signal-each", "signal-anything", "signal-everything"}
\* monitor: the allocator properties at every state of every validated trace
Fresh == (NotSpecial /\ FreshVsExplicit /\ InjectiveUntilWrap)
         \/ PrintT(<<"FAIL", Traces[t_id].id, "C13_alloc", [allocated |-> a_map, explicit |-> a_explicit]>>)
Report(t) == LET got == TLCGet(Reg(t)) - 1 IN
             <<"TRACE", Traces[t].id, got, Len(Ev(t)), IF got < Len(Ev(t)) THEN Ev(t)[got + 1] ELSE <<>> >>
Accepted == \A t \in TIDs : PrintT(Report(t))
=============================================================================
