------------------------------- MODULE Paste -------------------------------
(***************************************************************************)
(* L3: geometric and electrical validity of an emitted blueprint           *)
(*   C08: no two collision boxes intersect; every wire joins two existing  *)
(*        entities at connectors they have, same colour at both ends, and  *)
(*        is no longer than the reach of both endpoints                    *)
(*   C18: every electricity consumer touches the supply area of a pole of  *)
(*        the requested type; poles form one copper network with wires     *)
(*        within reach; without the option every pole is a circuit relay   *)
(* Coordinates: position.{x,y}.f2 are doubled tile coordinates (integers); *)
(* prototype boxes / distances (Proto.tla) are in hundredths of a tile.    *)
(***************************************************************************)
EXTENDS Circuit, Proto

PX(u, e) == Ents(u)[e].position.x.f2 * 50          \* hundredths of a tile
PY(u, e) == Ents(u)[e].position.y.f2 * 50
EName(u, e) == Ents(u)[e].name
PR(u, e) == ProtoT[EName(u, e)]
Dir(u, e) == Get(Ents(u)[e], "direction", 0)
Sideways(u, e) == Dir(u, e) \in {4, 12}
\* collision box, rotated for east / west facing entities
BoxOf(u, e) == LET p == PR(u, e) IN
   IF Sideways(u, e) THEN [x1 |-> PX(u, e) + p.cy1, x2 |-> PX(u, e) + p.cy2, y1 |-> PY(u, e) + p.cx1, y2 |-> PY(u, e) + p.cx2]
   ELSE [x1 |-> PX(u, e) + p.cx1, x2 |-> PX(u, e) + p.cx2, y1 |-> PY(u, e) + p.cy1, y2 |-> PY(u, e) + p.cy2]
Overlap(a, b) == a.x1 < b.x2 /\ b.x1 < a.x2 /\ a.y1 < b.y2 /\ b.y1 < a.y2
UnknownProtos(u) == {EName(u, e) : e \in {e \in Ids(u) : ~KnownProto(EName(u, e))}}
Overlaps(u) == {<<a, b>> \in Ids(u) \X Ids(u) : a < b /\ KnownProto(EName(u, a)) /\ KnownProto(EName(u, b)) /\ Overlap(BoxOf(u, a), BoxOf(u, b))}

\* connectors an entity has: combinators 1..4, poles 1,2 (circuit) + 5 (copper), power switch 1,2,5,6, everything else 1,2
ConnsOf(u, e) == CASE KindT[u][e] \in {"A", "D"} -> {1, 2, 3, 4}
                   [] KindT[u][e] = "P" -> {1, 2, 5}
                   [] EName(u, e) = "power-switch" -> {1, 2, 5, 6}
                   [] OTHER -> {1, 2}
Colour(c) == CASE c \in {1, 3} -> "red" [] c \in {2, 4} -> "green" [] OTHER -> "copper"
WireList(u) == BPs[u].wires
BadEnds(u) == {i \in DOMAIN WireList(u) : LET w == WireList(u)[i] IN
                 w[1] \notin Ids(u) \/ w[3] \notin Ids(u) \/ (w[1] \in Ids(u) /\ w[2] \notin ConnsOf(u, w[1])) \/ (w[3] \in Ids(u) /\ w[4] \notin ConnsOf(u, w[3]))}
BadColour(u) == {i \in DOMAIN WireList(u) : Colour(WireList(u)[i][2]) # Colour(WireList(u)[i][4])}
\* reach of an endpoint for this wire, in hundredths; squared distance in (half tiles)^2 against (2*reach/100)^2
ReachOf(u, e, c) == IF KindT[u][e] = "P" THEN PR(u, e).preach ELSE IF c \in {5, 6} THEN PR(u, e).preach ELSE PR(u, e).creach
Dist2(u, a, b) == LET dx == Ents(u)[a].position.x.f2 - Ents(u)[b].position.x.f2
                      dy == Ents(u)[a].position.y.f2 - Ents(u)[b].position.y.f2 IN dx * dx + dy * dy
TooLong(u) == {i \in DOMAIN WireList(u) \ BadEnds(u) : LET w == WireList(u)[i]
                      r == Min({ReachOf(u, w[1], w[2]), ReachOf(u, w[3], w[4])}) \div 50       \* in half tiles
                  IN KnownProto(EName(u, w[1])) /\ KnownProto(EName(u, w[3])) /\ w[1] # w[3] /\ Dist2(u, w[1], w[3]) > r * r}

(* ------------------------------- power ---------------------------------- *)
Poles(u) == {e \in Ids(u) : KindT[u][e] = "P"}
PolesOf(u, t) == {e \in Poles(u) : EName(u, e) = t}
Consumers(u) == {e \in Ids(u) : KnownProto(EName(u, e)) /\ PR(u, e).electric}
\* tile footprint of an entity and supply square of a pole
TileBox(u, e) == LET p == PR(u, e)  w == IF Sideways(u, e) THEN p.h ELSE p.w  h == IF Sideways(u, e) THEN p.w ELSE p.h IN
   [x1 |-> PX(u, e) - 50 * w, x2 |-> PX(u, e) + 50 * w, y1 |-> PY(u, e) - 50 * h, y2 |-> PY(u, e) + 50 * h]
Supply(u, q) == LET d == PR(u, q).supply IN [x1 |-> PX(u, q) - d, x2 |-> PX(u, q) + d, y1 |-> PY(u, q) - d, y2 |-> PY(u, q) + d]
Unpowered(u, t) == {e \in Consumers(u) : ~\E q \in PolesOf(u, t) : Overlap(TileBox(u, e), Supply(u, q))}
CopperAdj(u) == [q \in Poles(u) |-> {r \in Poles(u) : \E i \in DOMAIN WireList(u) : LET w == WireList(u)[i] IN
                                        w[2] = 5 /\ w[4] = 5 /\ ((w[1] = q /\ w[3] = r) \/ (w[1] = r /\ w[3] = q))}]
RECURSIVE PReach(_, _, _)
PReach(A, front, seen) == IF front = {} THEN seen ELSE LET nx == (UNION {A[q] : q \in front}) \ seen IN PReach(A, nx, seen \cup nx)
OneGrid(u) == Poles(u) = {} \/ LET q0 == CHOOSE q \in Poles(u) : TRUE IN PReach(CopperAdj(u), {q0}, {q0}) = Poles(u)
\* poles that a copper wire COULD join (within the reach of both), and the grids that would give
PoleReachAdj(u) == [q \in Poles(u) |-> {r \in Poles(u) \ {q} : LET m == Min({PR(u, q).preach, PR(u, r).preach}) \div 50 IN Dist2(u, q, r) <= m * m}]
ReachGrid(u) == Poles(u) = {} \/ LET q0 == CHOOSE q \in Poles(u) : TRUE IN PReach(PoleReachAdj(u), {q0}, {q0}) = Poles(u)
\* the poles are PLACED in clusters no wire can join, but every cluster has a pole of another cluster within reach * sqrt(2): the
\* diagonal neighbours of a pole lattice from which the pole in between was trimmed
BridgeableGap(u) == ~ReachGrid(u) /\ \A q \in Poles(u) : LET C == PReach(PoleReachAdj(u), {q}, {q}) IN
                      \E a \in C, b \in Poles(u) \ C : LET m == Min({PR(u, a).preach, PR(u, b).preach}) \div 50 IN Dist2(u, a, b) <= 2 * m * m
\* a pole that is (also) a circuit relay: it carries at least one circuit wire
IsRelay(u, q) == \E i \in DOMAIN WireList(u) : LET w == WireList(u)[i] IN (w[1] = q /\ w[2] \in {1, 2}) \/ (w[3] = q /\ w[4] \in {1, 2})
=============================================================================
