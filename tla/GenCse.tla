------------------------------- MODULE GenCse -------------------------------
(* Spec -> code: every operation pair / chain of the CSE universe (CseU), enumerated by TLC; the harness builds the real IR   *)
(* nodes, runs the real CSEOptimizer on them and TraceCse judges what comes back.  CSE_SCALE = "quick": every 4th pair.        *)
EXTENDS CseU, TLC, Json, IOUtils, SequencesExt
PairSeq == SetToSeq(Pairs)
Sel == IF IOEnv.CSE_SCALE = "quick" THEN {PairSeq[i] : i \in {i \in DOMAIN PairSeq : i % 4 = 0}} ELSE Pairs
All == {[grp |-> "pair", ops |-> p] : p \in Sel} \cup {[grp |-> "chain", ops |-> c] : c \in Chains}
ASSUME PrintT(<<"NPROGS", Cardinality(All)>>)
ASSUME JsonSerialize(IOEnv.GEN_OUT, SetToSeq(All))
=============================================================================
