----------------------------- MODULE MC_Colour -----------------------------
(***************************************************************************)
(* Exhaustive check of the wire-colour design model over EVERY instance of *)
(* a small universe: all edge sequences up to MaxLen over Srcs x Snks x     *)
(* Sigs x Merges, with every choice of at most MaxLocks locked nodes.       *)
(***************************************************************************)
EXTENDS Colour, TLC
CONSTANTS Srcs, Snks, Sigs, Merges, MaxLen, MaxLocks
EdgeVals == [src : Srcs, snk : Snks, sig : Sigs, merge : Merges]
EdgeSeqs == UNION {[1..n -> EdgeVals] : n \in 0..MaxLen}
AllNodes == (Srcs \ {0}) \X Sigs
LockFns == UNION {[S -> Colours] : S \in {T \in SUBSET AllNodes : Cardinality(T) <= MaxLocks}}
MCInit == \E es \in EdgeSeqs, lk \in LockFns : CInit(es, lk)
MCSpec == MCInit /\ [][CNext]_cvars /\ WF_cvars(CNext)
Terminates == <>Done
\* completeness of the search: expected to hold when nothing is locked ...
CompleteUnlocked == c_locked = <<>> => Complete
\* ... the result does not depend on the order of the edges when no node meets one sink through two different merges
=============================================================================
