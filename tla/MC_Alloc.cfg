SPECIFICATION MCSpec
CONSTANT Reserved <- MCReserved
CONSTANT Wildcards <- MCWildcards
INVARIANT NotSpecial
INVARIANT FreshVsExplicit
INVARIANT InjectiveUntilWrap
CHECK_DEADLOCK FALSE
