----------------------------- MODULE GenBundle -----------------------------
(***************************************************************************)
(* Generator specification for C02 (and C10/C20 on bundles): literal /     *)
(* nested / merged bundles x each-operations with constant and signal      *)
(* operands x filters (copy / constant) x gating x any/all x selection.    *)
(***************************************************************************)
EXTENDS Facto, FiniteSetsExt, SequencesExt, Json, IOUtils

A == Ref("a")  B == Ref("b")  S == Ref("s")  BB == Ref("bb")
Ins == <<SIn("a", "signal-A", 5), SIn("b", "signal-B", -3), SIn("s", "signal-S", 2)>>
BBdef == SLet("Bundle", "bb", BLit(<<A, B, Lit(TName("signal-C"), Num(7))>>))
P(grp, stmts) == [grp |-> grp, stmts |-> stmts, src |-> Render(stmts)]
Pre == Ins \o <<BBdef>>
RB(e) == SLet("Bundle", "r", e)
RS(e) == SLet("Signal", "r", e)

Scalars == {Num(2), Num(-3), Num(0), S, A, Bin("+", S, Num(1))}
EachOps == {P("each", Pre \o <<RB(Bin(op, BB, x))>>) : op \in ArithOps, x \in Scalars}
Outs == {BB, Num(1), Num(5)}
Thr == {Num(0), Num(3), Num(-3), S}
Filters == {P("filter", Pre \o <<RB(CondE(Bin(op, BB, t), o))>>) : op \in CmpOps, t \in Thr, o \in Outs}
Quants == {P("quant", Pre \o <<RS(Bin(op, q, t))>>) : op \in CmpOps, t \in {Num(0), Num(4), Num(-3), S}, q \in {AnyE(BB), AllE(BB)}}
Gates == {P("gate", Pre \o <<RB(CondE(Bin(op, S, Num(1)), BB))>>) : op \in CmpOps}
   \cup {P("gate", Pre \o <<RB(CondE(Bin(">", A, B), BB))>>), P("gate", Pre \o <<RB(CondE(Bin("&&", Bin(">", A, Num(0)), Bin(">", S, Num(0))), BB))>>)}
Sels == {P("sel", Pre \o <<RS(Sel(BB, t))>>) : t \in {"signal-A", "signal-B", "signal-C"}}
   \cup {P("sel", Pre \o <<RS(Bin("+", Sel(BB, "signal-A"), Sel(BB, "signal-C")))>>),
         P("sel", Pre \o <<RS(Bin("*", Sel(BB, "signal-B"), S))>>),
         P("sel", Pre \o <<RS(Bin(">", Sel(BB, "signal-A"), Num(3)))>>),
         P("sel", Pre \o <<SLet("Bundle", "d", Bin("*", BB, Num(2))), RS(Sel(Ref("d"), "signal-B"))>>)}
Lits == {
  P("lit", Ins \o <<RB(BLit(<<A, B>>))>>),
  P("lit", Ins \o <<RB(BLit(<<A>>))>>),
  P("lit", Ins \o <<RB(BLit(<<Lit(TName("iron-plate"), Num(10)), Lit(TName("copper-plate"), Num(-4))>>))>>),
  P("lit", Ins \o <<RB(BLit(<<A, Lit(TName("iron-plate"), Num(10)), Bin("+", B, Num(1))>>))>>),
  P("lit", Ins \o <<RB(BLit(<<Bin("*", A, Num(2)), Bin("*", B, S)>>))>>),
  P("lit", Ins \o <<RB(BLit(<<Proj(A, TName("signal-X")), Proj(B, TName("signal-Y"))>>))>>),
  P("lit", Pre \o <<RB(BLit(<<BB, Lit(TName("signal-Z"), Num(30))>>))>>),
  P("lit", Pre \o <<RB(BLit(<<BB, S>>))>>),
  P("lit", Pre \o <<SLet("Bundle", "m", BLit(<<S, Lit(TName("signal-Z"), Num(30))>>)), RB(BLit(<<BB, Ref("m")>>))>>),
  P("lit", Pre \o <<RB(BB)>>),
  P("lit", Pre \o <<SLet("Bundle", "d", Bin("*", BB, Num(2))), RB(BLit(<<Ref("d"), S>>))>>)
 }
Chains == {
  P("chain", Pre \o <<SLet("Bundle", "d", Bin("*", BB, Num(2))), RB(Bin("+", Ref("d"), Num(1)))>>),
  P("chain", Pre \o <<SLet("Bundle", "d", Bin("*", BB, S)), RB(CondE(Bin(">", Ref("d"), Num(0)), Ref("d")))>>),
  P("chain", Pre \o <<SLet("Bundle", "f", CondE(Bin(">", BB, Num(0)), BB)), RB(Bin("*", Ref("f"), Num(3)))>>),
  P("chain", Pre \o <<SLet("Bundle", "f", CondE(Bin(">", BB, Num(0)), BB)), RS(Bin(">", AnyE(Ref("f")), Num(6)))>>),
  P("chain", Pre \o <<SLet("Bundle", "f", CondE(Bin(">", BB, Num(0)), BB)), SLet("Bundle", "g", CondE(Bin(">", BB, Num(0)), Num(1)))>>),
  P("chain", Pre \o <<SLet("Bundle", "f", CondE(Bin("<", BB, Num(0)), BB)), SLet("Bundle", "g", CondE(Bin(">=", BB, Num(0)), BB))>>),
  P("chain", Pre \o <<SLet("Bundle", "d", Bin("*", BB, Num(2))), SLet("Bundle", "e", Bin("*", BB, Num(2)))>>),
  P("chain", Pre \o <<SLet("Bundle", "d", Bin("-", BB, A)), SLet("Signal", "q", Bin("+", A, S))>>),
  P("chain", Pre \o <<SLet("Signal", "k", Bin("+", A, Num(1))), RB(Bin("*", BB, Ref("k")))>>),
  P("chain", Pre \o <<SLet("Signal", "x", Bin(">", AllE(BB), Num(-5))), SLet("Signal", "y", Bin("<", AnyE(BB), Num(0))), SLet("Signal", "z", Bin("+", Ref("x"), Ref("y")))>>),
  P("chain", Pre \o <<RS(CondE(Bin(">", AnyE(BB), Num(4)), S))>>),
  P("chain", Pre \o <<RS(Bin("&&", Bin(">", AnyE(BB), Num(4)), Bin(">", S, Num(0))))>>),
  P("chain", Pre \o <<SLet("Bundle", "d", Bin("AND", Bin(">>", BB, Num(1)), Num(1)))>>),
  P("chain", Pre \o <<SLet("Bundle", "d", Bin("%", BB, Num(3))), SLet("Bundle", "e", Bin("/", BB, Num(-2)))>>)
 }
\* operations that differ ONLY in which member of one bundle they read (same operator, other operand and output type)
SA == Sel(BB, "signal-A")  SB == Sel(BB, "signal-B")  SC == Sel(BB, "signal-C")
SelPairs == {
  P("selpair", Pre \o <<SLet("Signal", "x", Bin("+", S, SA)), SLet("Signal", "y", Bin("+", S, SB))>>),
  P("selpair", Pre \o <<SLet("Signal", "x", Bin("*", S, SB)), SLet("Signal", "y", Bin("*", S, SC))>>),
  P("selpair", Pre \o <<SLet("Signal", "x", CondE(Bin(">", SA, Num(1)), S)), SLet("Signal", "y", CondE(Bin(">", SB, Num(1)), S))>>),
  P("selpair", Pre \o <<SLet("Signal", "x", CondE(Bin(">", AnyE(BB), Num(5)), S)), SLet("Signal", "y", CondE(Bin(">", AllE(BB), Num(5)), S))>>),
  P("selpair", Pre \o <<SLet("Signal", "x", Proj(SA, TName("signal-X"))), SLet("Signal", "y", Proj(SB, TName("signal-X")))>>),
  P("selpair", Pre \o <<SLet("Signal", "x", Bin(">", SA, Num(0))), SLet("Signal", "y", Bin(">", SC, Num(0))), SLet("Signal", "z", Bin(">", SB, Num(0)))>>),
  P("selpair", Pre \o <<SLet("Signal", "x", Bin("-", SA, SB)), SLet("Signal", "y", Bin("-", SA, SC))>>)
 }
\* chains of each-operations with constants where the INTERMEDIATE bundle is observed as well (directly, through another
\* operation, a selection, a filter): folding the chain must not change the intermediate
ChainOps == {"+", "*", "AND", "OR", "XOR", "-"}
NamedChains == {P("nchain", Pre \o <<SLet("Bundle", "d", Bin(op, BB, Num(2))), SLet("Bundle", "r", Bin(op, Ref("d"), Num(3))), SLet("Bundle", "e", Bin("+", Ref("d"), Num(1)))>>) : op \in ChainOps}
   \cup {P("nchain", Pre \o <<SLet("Bundle", "d", Bin(op, BB, Num(2))), SLet("Bundle", "r", Bin(op, Ref("d"), Num(3))), SLet("Signal", "e", Sel(Ref("d"), "signal-A"))>>) : op \in {"+", "*", "OR"}}
   \cup {P("nchain", Pre \o <<SLet("Bundle", "d", Bin(op, BB, Num(2))), SLet("Bundle", "r", Bin(op, Ref("d"), Num(3)))>>) : op \in {"+", "*"}}
   \cup {P("nchain", Pre \o <<SLet("Bundle", "d", Bin("*", BB, Num(2))), SLet("Bundle", "r", Bin("*", Ref("d"), Num(3))), SLet("Bundle", "e", CondE(Bin(">", Ref("d"), Num(4)), Ref("d")))>>),
         P("nchain", Pre \o <<SLet("Bundle", "r", Bin("*", Bin("*", BB, Num(2)), Num(3)))>>),
         P("nchain", Pre \o <<SLet("Bundle", "d", Bin("+", BB, Num(2))), SLet("Bundle", "r", Bin("+", Ref("d"), Num(3))), SLet("Signal", "e", Bin(">", AnyE(Ref("d")), Num(8)))>>)}
\* (gating a bundle by a scalar condition is not a documented bundle operation and not part of C02: Gates is not generated)
\* NEAR-DUPLICATES over one bundle: two statements that differ in exactly one attribute (copy vs constant output, the constant,
\* comparator, threshold, operator, operand), both orders, observed directly and through a consumer
NearB == <<CondE(Bin(">", BB, Num(0)), BB), CondE(Bin(">", BB, Num(0)), Num(1)), CondE(Bin(">", BB, Num(0)), Num(7)), CondE(Bin(">=", BB, Num(0)), BB),
           CondE(Bin(">", BB, Num(3)), BB), CondE(Bin(">", BB, Num(3)), Num(1)), Bin("*", BB, Num(2)), Bin("*", BB, Num(3)), Bin("+", BB, Num(2)), Bin("*", BB, S)>>
NearQ == <<Bin(">", AnyE(BB), Num(0)), Bin(">", AllE(BB), Num(0)), Bin(">=", AnyE(BB), Num(0)), Bin(">", AnyE(BB), Num(6)), Bin(">", AllE(BB), Num(6)),
           CondE(Bin(">", AnyE(BB), Num(0)), S), CondE(Bin(">", AllE(BB), Num(0)), S), CondE(Bin(">", AnyE(BB), Num(0)), Num(1))>>
NearPairs(fs) == {<<fs[i], fs[j]>> : i \in DOMAIN fs, j \in DOMAIN fs} \ {<<fs[i], fs[i]>> : i \in DOMAIN fs}
NearBP == {P("nearb", Pre \o <<SLet("Bundle", "x", pr[1]), SLet("Bundle", "y", pr[2])>>) : pr \in NearPairs(NearB)}
     \cup {P("nearb", Pre \o <<SLet("Bundle", "x", pr[1]), SLet("Bundle", "y", pr[2]), SLet("Bundle", "w", Bin("*", Ref("y"), Num(100)))>>) : pr \in NearPairs(SubSeq(NearB, 1, 6))}
     \cup {P("nearb", Pre \o <<SLet("Signal", "x", pr[1]), SLet("Signal", "y", pr[2])>>) : pr \in NearPairs(NearQ)}
SelOfNamed == {P("selnamed", Pre \o <<SLet("Bundle", "c", cb), SLet("Signal", "t", f), SLet("Bundle", "d", Bin("+", Ref("c"), Num(1)))>>) :
                 cb \in {Bin("*", BB, Num(2)), CondE(Bin(">", BB, Num(0)), BB), Bin("+", BB, S)},
                 f \in {Proj(Sel(Ref("c"), "signal-A"), TName("signal-X")), Sel(Ref("c"), "signal-A"), Bin("+", Sel(Ref("c"), "signal-A"), Num(1)),
                        Proj(Bin("+", Sel(Ref("c"), "signal-A"), Sel(Ref("c"), "signal-B")), TName("signal-X")), Bin(">", Sel(Ref("c"), "signal-B"), Num(0))}}
All == SelOfNamed \cup EachOps \cup Filters \cup Quants \cup Sels \cup Lits \cup Chains \cup SelPairs \cup NamedChains \cup NearBP
ASSUME PrintT(<<"NPROGS", Cardinality(All)>>)
ASSUME JsonSerialize(IOEnv.GEN_OUT, SetToSeq(All))
=============================================================================
