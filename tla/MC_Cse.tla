------------------------------- MODULE MC_Cse -------------------------------
(* Exhaustive check of the CSE design model over every pair of operations of the small universe and every chain of a small sub-universe *)
EXTENDS Cse, CseU
MCInit == \E ops \in Pairs \cup Chains : SInit(ops)
MCSpec == MCInit /\ [][SNext]_svars /\ WF_svars(SNext)
Terminates == <>SDone
=============================================================================
