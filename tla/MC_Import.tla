----------------------------- MODULE MC_Import -----------------------------
(* Exhaustive instance: main + 3 files, EVERY import relation with at most 2 imports per file (cycles, self-imports,      *)
(* diamonds, the same file twice): safety OnceEach / Bounded and liveness Terminates.                                     *)
EXTENDS Import, TLC
MCFiles == {"<main>", "a", "b", "c"}
Lists == {<<>>} \cup {<<x>> : x \in {"a", "b", "c"}} \cup {<<x, y>> : x \in {"a", "b", "c"}, y \in {"a", "b", "c"}}
MCInit == \E g \in [MCFiles -> Lists] : IInit(g)
MCSpec == MCInit /\ [][INext]_ivars /\ WF_ivars(INext)
=============================================================================
