------------------------------- MODULE Layout -------------------------------
(***************************************************************************)
(* Design model of the layout stage's control flow (LayoutPlanner.         *)
(* plan_layout + IntegerLayoutEngine.optimize): one action per decision    *)
(* point, so that hook events H2 can be validated against it and TLC can   *)
(* enumerate its behaviours as layout-outcome scripts.                     *)
(*   attempt loop   0 .. MaxRetries; every attempt starts from a reset     *)
(*                  state (nothing of a discarded attempt survives)        *)
(*   QuickSolve /   CP-SAT call with ladder strategy l_next (the first     *)
(*   Solve(ok)      call of an attempt may be the 1-second "quick" Strict  *)
(*                  solve for small graphs, after which the ladder starts  *)
(*                  again at Strict); ok = a solution was found            *)
(*   Trivial        no entity to place: no solver call at all              *)
(*   Accept         the solution just found is good enough: go on          *)
(*   Exhausted      ladder finished: best solution so far, or no solution  *)
(*                  at all (=> error: the diagnostics raise)               *)
(*   Route(ok)      wire/relay routing of this attempt; failure => retry   *)
(*                  while attempts remain, error (nothing emitted) after   *)
(*                  the last one                                           *)
(* No history variable: the properties are state and action properties.    *)
(***************************************************************************)
EXTENDS Integers, Sequences, FiniteSets

CONSTANTS Ladder,       \* sequence of strategy names, strictest first
          MaxRetries    \* max_layout_retries (3)
VARIABLES l_attempt,    \* 0 .. MaxRetries
          l_phase,      \* "solve" | "route" | "done" | "error"
          l_next,       \* index of the next ladder strategy
          l_quick,      \* the quick solve may still happen in this attempt
          l_found,      \* some solver call of this attempt found a solution
          l_last        \* outcome of the latest step: "none" | "solved" | "unsolved" | "routed" | "unrouted"
lvars == <<l_attempt, l_phase, l_next, l_quick, l_found, l_last>>

LInit == l_attempt = 0 /\ l_phase = "solve" /\ l_next = 1 /\ l_quick = TRUE /\ l_found = FALSE /\ l_last = "none"
QuickSolve(ok) == /\ l_phase = "solve" /\ l_quick /\ l_next = 1
                  /\ l_quick' = FALSE /\ l_found' = (l_found \/ ok) /\ l_last' = IF ok THEN "solved" ELSE "unsolved"
                  /\ UNCHANGED <<l_attempt, l_phase, l_next>>
Solve(ok) == /\ l_phase = "solve" /\ l_next <= Len(Ladder)
             /\ l_quick' = FALSE /\ l_found' = (l_found \/ ok) /\ l_next' = l_next + 1 /\ l_last' = IF ok THEN "solved" ELSE "unsolved"
             /\ UNCHANGED <<l_attempt, l_phase>>
\* nothing to place (every entity has a fixed position): the empty placement is the solution, no solver call is made
Trivial == /\ l_phase = "solve" /\ l_quick /\ l_next = 1
           /\ l_phase' = "route" /\ l_found' = TRUE /\ l_quick' = FALSE /\ UNCHANGED <<l_attempt, l_next, l_last>>
Accept == /\ l_phase = "solve" /\ l_last = "solved"
          /\ l_phase' = "route" /\ UNCHANGED <<l_attempt, l_next, l_quick, l_found, l_last>>
Exhausted == /\ l_phase = "solve" /\ l_next > Len(Ladder)
             /\ l_phase' = IF l_found THEN "route" ELSE "error"
             /\ UNCHANGED <<l_attempt, l_next, l_quick, l_found, l_last>>
Route(ok) == /\ l_phase = "route"
             /\ l_last' = IF ok THEN "routed" ELSE "unrouted"
             /\ IF ok THEN l_phase' = "done" /\ UNCHANGED <<l_attempt, l_next, l_quick, l_found>>
                ELSE IF l_attempt < MaxRetries
                     THEN l_attempt' = l_attempt + 1 /\ l_phase' = "solve" /\ l_next' = 1 /\ l_quick' = TRUE /\ l_found' = FALSE
                     ELSE l_phase' = "error" /\ UNCHANGED <<l_attempt, l_next, l_quick, l_found>>
LNext == (\E ok \in BOOLEAN : QuickSolve(ok) \/ Solve(ok) \/ Route(ok)) \/ Accept \/ Exhausted \/ Trivial

AttemptsBounded == l_attempt <= MaxRetries
DoneMeansRouted == l_phase = "done" => l_last = "routed"
ErrorMeansFailed == l_phase = "error" => (l_last = "unrouted" /\ l_attempt = MaxRetries) \/ (~l_found /\ l_next > Len(Ladder))
RouteNeedsSolution == l_phase = "route" => l_found
\* a new attempt starts only after a routing failure, from a reset solver state, and attempts are numbered consecutively
RetryOnlyAfterFailure == [][l_attempt' # l_attempt => (l_phase = "route" /\ l_last' = "unrouted" /\ l_attempt' = l_attempt + 1
                                                        /\ l_next' = 1 /\ l_quick' /\ ~l_found')]_lvars
LadderInOrder == [][(l_attempt' = l_attempt /\ l_next' # l_next) => l_next' = l_next + 1]_lvars
=============================================================================
