-------------------------------- MODULE CseU --------------------------------
(***************************************************************************)
(* Small universes of IR operations for the CSE design model: nodes 1 and  *)
(* 2 are leaves (two sources, of types "A" and "B"), the following nodes    *)
(* are drawn from every combination of a few operators, operands, output   *)
(* types, output values and output modes.  Used by MC_Cse (model checking) *)
(* and GenCse (instances fed to the real optimizer).                       *)
(***************************************************************************)
EXTENDS Integers, Sequences, FiniteSets
Leaf == [kind |-> "leaf"]
I(v) == [k |-> "int", v |-> v]
S(src, t) == [k |-> "sig", src |-> src, t |-> t]
Opnds == {I(1), I(2), S(1, "A"), S(2, "B")}
Outs == {"A", "X"}
Arith(op, l, r, out) == [kind |-> "arith", op |-> op, l |-> l, r |-> r, out |-> out]
Row(cmp, a, b, ct) == [cmp |-> cmp, a |-> a, b |-> b, ct |-> ct]
Dec(conds, ov, copy, out) == [kind |-> "decider", conds |-> conds, ov |-> ov, copy |-> copy, out |-> out]
\* "^" is the IR's power operator: not commutative
Ariths == {Arith(op, l, r, out) : op \in {"+", "^"}, l \in Opnds, r \in Opnds, out \in Outs}
Dec1 == {Dec(<<Row(cmp, a, b, "or")>>, ov, copy, out) : cmp \in {">", "=="}, a \in Opnds, b \in {I(1), S(2, "B")}, ov \in {I(1), I(2), S(1, "A")}, copy \in BOOLEAN, out \in Outs}
Dec2 == {Dec(<<Row(">", S(1, "A"), I(1), "or"), Row(cmp, S(2, "B"), b, ct)>>, ov, copy, "X") : cmp \in {">", "<"}, b \in {I(1), I(2)}, ct \in {"or", "and"}, ov \in {I(1), S(1, "A")}, copy \in BOOLEAN}
Nodes == Ariths \cup Dec1 \cup Dec2
\* a consumer of node j (to see replacements propagate)
Use(j, t) == Arith("+", S(j, t), I(1), "X")
Eff(vals) == [kind |-> "use", vals |-> vals]
Pairs == {<<Leaf, Leaf, a, b>> : a \in Nodes, b \in Nodes}
SmallNodes == {n \in Nodes : n.out = "X" /\ (n.kind = "arith" \/ (Len(n.conds) = 1 /\ n.conds[1].cmp = ">" /\ n.conds[1].b = I(1)))}
Chains == {<<Leaf, Leaf, a, b, Use(3, "X"), Use(4, "X")>> : a \in SmallNodes, b \in SmallNodes}
          \cup {<<Leaf, Leaf, a, Use(3, "X"), b, Use(5, "X"), Use(3, "X")>> : a \in SmallNodes, b \in SmallNodes}
          \* effects that read the (possibly replaced) nodes: a write of node 4 gated by node 3, a property write of node 4
          \cup {<<Leaf, Leaf, a, b, Eff(<<S(4, "X"), S(3, "X")>>), Eff(<<S(4, "X")>>)>> : a \in SmallNodes, b \in SmallNodes}
          \cup {<<Leaf, Leaf, a, b, Eff(<<S(3, "X"), S(4, "X")>>)>> : a \in SmallNodes, b \in SmallNodes}
          \cup {<<Leaf, Leaf, a, b, Eff(<<I(1), S(4, "X"), S(3, "X")>>), Eff(<<S(4, "X"), S(4, "X"), S(3, "X")>>)>> : a \in SmallNodes, b \in SmallNodes}
=============================================================================
