----------------------------- MODULE MC_Layout -----------------------------
(* Exhaustive check of the layout control-flow model: 6-step ladder, 3 retries, every outcome of every solver call and of  *)
(* every routing attempt.  Its behaviours projected on the outcome parameters are the layout-outcome scripts of C08.      *)
EXTENDS Layout, TLC
MCLadder == <<"Strict", "Relaxed span (+33%)", "Larger area (+50%)", "Both relaxed", "Very relaxed", "Unlimited (rely on relays)">>
MCSpec == LInit /\ [][LNext]_lvars
Eventually == <>(l_phase \in {"done", "error"})
MCFair == MCSpec /\ WF_lvars(LNext)
=============================================================================
