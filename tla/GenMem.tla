------------------------------- MODULE GenMem -------------------------------
(***************************************************************************)
(* Generator specification for C03 (gated cells) and C05 (latches).        *)
(* Enable / set / reset expressions use every input at most once           *)
(* (no reconvergent paths: a single input change cannot glitch them),      *)
(* so the abstract memory machine is exact except where one input drives   *)
(* both data and enable (those races are detected and not judged).         *)
(* Each cell has a direct reader (Signal o = m.read();) plus extra readers.*)
(***************************************************************************)
EXTENDS Facto, FiniteSetsExt, SequencesExt, Json, IOUtils

D == Ref("d")  E == Ref("e")  F == Ref("f")  X == Ref("x")
TM == "signal-M"
P(grp, stmts, dom) == [grp |-> grp, stmts |-> stmts, src |-> Render(stmts), dom |-> dom, mode |-> "hist"]
Dom1 == <<-3, 0, 1, 2, 5, MaxI>>
DomT == <<-3, 0, 2, 3, 4, 6, MaxI>>        \* around thresholds 3 and 5
InD == SIn("d", TM, 5)
InE == SIn("e", "signal-E", 0)
InF == SIn("f", "signal-F", 0)
InX == SIn("x", TM, 0)
Mem(n, t) == SMem(n, t)
Wr(m, v, c) == SWrite(m, v, "when", c, Num(0))
Rd(n, m) == SLet("Signal", n, ReadE(m))

Enables == {Bin(">", E, Num(0)), E, Bin(">=", E, Num(2)), Bin("==", E, Num(1)), Bin("!=", E, Num(0)), Bin("<", E, Num(1)),
            Bin(">", Bin("+", E, Num(1)), Num(2)), Bin("&&", Bin(">", E, Num(0)), Bin(">", F, Num(0))), Bin("||", Bin(">", E, Num(0)), Bin(">", F, Num(0)))}
Datas == {D, Bin("+", D, Num(1)), Bin("*", D, Num(2)), Lit(TName(TM), Num(7)), Proj(Bin("-", Num(0), D), TName(TM))}
UsesF(c) == c.k = "bin" /\ c.op \in {"&&", "||"}
\* an enable given as a bare signal is only specified for c > 0 and c = 0 (the property says nothing about a negative enable):
\* those programs get a non-negative domain
DomNN == <<0, 1, 2, 5, MaxI>>
Cell1 == {P("cell", <<InD, InE>> \o (IF UsesF(c) THEN <<InF>> ELSE <<>>) \o <<Mem("m", TM), Wr("m", v, c), Rd("o", "m")>>, IF c.k = "ref" THEN DomNN ELSE Dom1) : c \in Enables, v \in Datas}
\* shared support: one input drives data and enable (races are possible and must be recognised, not judged)
Shared == {P("shared", <<InX, Mem("m", TM), Wr("m", v, c), Rd("o", "m")>>, IF c.k = "ref" THEN <<0, 2, 3, 4, 6, MaxI>> ELSE DomT) :
             v \in {X, Bin("+", X, Num(1))}, c \in {Bin(">", X, Num(3)), Bin("<", X, Num(3)), Bin("==", X, Num(4)), X}}
\* readers: the direct reader plus 1-2 more consumers; a reader must not disturb the cell
Readers == {
  P("readers", <<InD, InE, Mem("m", TM), Wr("m", D, Bin(">", E, Num(0))), Rd("o", "m"), SLet("Signal", "p", Bin("+", ReadE("m"), Num(1)))>>, Dom1),
  P("readers", <<InD, InE, Mem("m", TM), Wr("m", D, Bin(">", E, Num(0))), Rd("o", "m"), SLet("Signal", "p", Bin("*", ReadE("m"), D)), SLet("Signal", "q", Bin(">", ReadE("m"), Num(1)))>>, Dom1),
  P("readers", <<InD, InE, Mem("m", TM), Rd("o", "m"), Wr("m", D, Bin(">", E, Num(0))), SLet("Signal", "p", Bin("-", ReadE("m"), ReadE("m")))>>, Dom1),
  P("readers", <<InD, InE, Mem("m", TM), Wr("m", D, Bin(">", E, Num(0))), Rd("o", "m"), SLet("Signal", "p", CondE(Bin(">", E, Num(0)), ReadE("m")))>>, Dom1),
  P("readers", <<InD, InE, Mem("m", ""), Wr("m", D, Bin(">", E, Num(0))), Rd("o", "m")>>, Dom1),
  P("readers", <<InD, InE, Mem("m", "iron-plate"), Wr("m", Proj(D, TName("iron-plate")), Bin(">", E, Num(0))), Rd("o", "m")>>, Dom1)
 }
\* two cells: independent, and chained (second written from the first one's read)
Two == {
  P("two", <<InD, InE, InF, Mem("m", TM), Mem("n", "signal-N"), Wr("m", D, Bin(">", E, Num(0))), Wr("n", Proj(D, TName("signal-N")), Bin(">", F, Num(0))), Rd("o", "m"), Rd("p", "n")>>, <<-3, 0, 1, 5>>),
  P("two", <<InD, InE, InF, Mem("m", TM), Mem("n", TM), Wr("m", D, Bin(">", E, Num(0))), Wr("n", Bin("+", D, Num(1)), Bin(">", F, Num(0))), Rd("o", "m"), Rd("p", "n")>>, <<-3, 0, 1, 5>>),
  P("two", <<InD, InE, InF, Mem("m", TM), Mem("n", TM), Wr("m", D, Bin(">", E, Num(0))), Wr("n", ReadE("m"), Bin(">", F, Num(0))), Rd("o", "m"), Rd("p", "n")>>, <<-3, 0, 1, 5>>)
 }

(* ------------------------------- latches -------------------------------- *)
S == Ref("s")  R == Ref("r")
InS == SIn("s", "signal-S", 0)
InR == SIn("r", "signal-R", 0)
TL == "signal-L"
La(mode, v, sa, ra) == SWrite("l", v, mode, sa, ra)
Modes == {"set_reset", "reset_set"}
Vs == {Num(1), Num(5), D}
NeedsD(v) == v.k = "ref"
\* boolean signals directly (domain 0/1) and comparisons on two inputs
LatchTwo == {P("latch2", <<InS, InR>> \o (IF NeedsD(v) THEN <<SIn("d", TL, 5)>> ELSE <<>>) \o <<Mem("l", TL), La(mode, v, sr[1], sr[2]), Rd("o", "l")>>, sr[3]) :
               mode \in Modes, v \in Vs,
               sr \in {<<S, R, <<0, 1>> >>, <<Bin(">", S, Num(0)), Bin(">", R, Num(0)), <<-3, 0, 1, 5>> >>,
                       <<Bin("==", S, Num(1)), Bin("!=", R, Num(0)), <<-3, 0, 1, 5>> >>, <<Bin(">", S, Num(0)), R, <<0, 1>> >>}}
\* set and reset as comparisons on ONE input: thresholds disjoint / touching / overlapping
LatchOne == {P("latch1", <<SIn("x", "signal-X", 0)>> \o (IF NeedsD(v) THEN <<SIn("d", TL, 5)>> ELSE <<>>) \o <<Mem("l", TL), La(mode, v, sr[1], sr[2]), Rd("o", "l")>>, <<-3, 0, 1, 2, 3, 4, 5, 6, 7, MaxI>>) :
               mode \in Modes, v \in Vs,
               sr \in {<<Bin(">", X, Num(5)), Bin("<", X, Num(2))>>, <<Bin("<", X, Num(2)), Bin(">", X, Num(5))>>,
                       <<Bin(">", X, Num(3)), Bin("<=", X, Num(3))>>, <<Bin(">", X, Num(3)), Bin(">", X, Num(5))>>,
                       <<Bin(">", X, Num(5)), Bin(">", X, Num(3))>>, <<Bin(">=", X, Num(2)), Bin("<=", X, Num(4))>>,
                       <<Bin("==", X, Num(3)), Bin("==", X, Num(5))>>}}
\* the cell declared on the SAME signal type as the input that its set / reset conditions watch (legal; the latch feeds its
\* own state back on that type, so every condition row must read the input from the input's wire only)
LatchSameType == {P("latchs", <<SIn("x", TL, 0), Mem("l", TL), La(mode, v, sr[1], sr[2]), Rd("o", "l")>>, <<-3, 0, 1, 2, 3, 4, 5, 6, 7, MaxI>>) :
               mode \in Modes, v \in {Num(1), Num(5)},
               sr \in {<<Bin(">", X, Num(5)), Bin("<", X, Num(2))>>, <<Bin("<", X, Num(2)), Bin(">", X, Num(5))>>,
                       <<Bin(">", X, Num(3)), Bin("<=", X, Num(3))>>, <<Bin("<", X, Num(4)), Bin(">=", X, Num(4))>>,
                       <<Bin(">=", X, Num(5)), Bin("<=", X, Num(1))>>}}
   \cup {P("latchs", <<SIn("s", TL, 0), InR, Mem("l", TL), La(mode, Num(1), Bin(">", S, Num(0)), Bin(">", R, Num(0))), Rd("o", "l")>>, <<-3, 0, 1, 5>>) : mode \in Modes}
CellSameType == {
  P("cells", <<InD, SIn("e", TM, 0), Mem("m", TM), Wr("m", D, Bin(">", E, Num(0))), Rd("o", "m")>>, Dom1),
  P("cells", <<SIn("x", TM, 0), SIn("e", TM, 0), Mem("m", TM), Wr("m", Bin("+", X, Num(1)), Bin(">=", E, Num(2))), Rd("o", "m"), SLet("Signal", "p", Bin("+", ReadE("m"), Num(1)))>>, Dom1)
 }
\* several cells written under the SAME inline enable expression (identical sub-expressions are merged by CSE; every cell must still
\* get its enable), and readers that come BEFORE the write statement in program order
SameEnable == {
  P("samee", <<InD, InE, Mem("m", TM), Mem("n", "signal-N"), Wr("m", D, c), Wr("n", Proj(Bin("+", D, Num(1)), TName("signal-N")), c), Rd("o", "m"), Rd("p", "n")>>, dm) :
      c \in {Bin(">", E, Num(0)), E, Bin("&&", Bin(">", E, Num(0)), Bin("<", E, Num(5)))}, dm \in {<<0, 1, 2, 5>>}}
  \cup {P("samee", <<InD, InE, Mem("m", TM), Mem("n", "signal-N"), Mem("k", "signal-K"), Wr("m", D, Bin(">", E, Num(0))), Wr("n", Proj(D, TName("signal-N")), Bin(">", E, Num(0))),
                     Wr("k", Proj(Bin("*", D, Num(2)), TName("signal-K")), Bin(">", E, Num(0))), Rd("o", "m"), Rd("p", "n"), Rd("q", "k")>>, <<-3, 0, 1, 5>>)}
EarlyReaders == {
  P("early", <<InD, InE, Mem("m", TM), Rd("o", "m"), SLet("Signal", "p", Bin("*", ReadE("m"), Num(2))), Wr("m", D, Bin(">", E, Num(0)))>>, Dom1),
  P("early", <<InD, InE, Mem("m", TM), SLet("Signal", "p", Bin("+", ReadE("m"), Num(1))), Wr("m", Bin("+", D, Num(1)), Bin(">=", E, Num(2))), Rd("o", "m")>>, Dom1),
  P("early", <<InS, InR, Mem("l", TL), Rd("o", "l"), SLet("Signal", "p", Bin("+", ReadE("l"), Num(10))), La("set_reset", Num(1), Bin(">", S, Num(0)), Bin(">", R, Num(0)))>>, <<-3, 0, 1, 5>>)
 }
LatchMore == {
  \* two latches under IDENTICAL (non-inlined) set / reset conditions: the duplicated comparisons are merged, both latches must still get them
  P("latchx", <<InS, InR, Mem("l", TL), Mem("k", "signal-K"), SWrite("l", Num(1), "set_reset", Bin(">", S, Num(0)), Bin(">", R, Num(0))),
                SWrite("k", Num(5), "set_reset", Bin(">", S, Num(0)), Bin(">", R, Num(0))), Rd("o", "l"), Rd("p", "k")>>, <<-3, 0, 1, 5>>),
  P("latchx", <<InS, InR, Mem("l", TL), Mem("k", "signal-K"), SWrite("l", Num(1), "set_reset", Bin(">", S, Num(0)), Bin(">", R, Num(0))),
                SWrite("k", Num(1), "reset_set", Bin(">", S, Num(0)), Bin(">", R, Num(0))), Rd("o", "l"), Rd("p", "k")>>, <<-3, 0, 1, 5>>),
  P("latchx", <<InS, InR, Mem("l", TL), La("set_reset", Num(1), S, R), Rd("o", "l"), SLet("Signal", "p", Bin("+", ReadE("l"), Num(10)))>>, <<0, 1>>),
  P("latchx", <<InS, InR, Mem("l", ""), La("reset_set", Num(1), Bin(">", S, Num(0)), Bin(">", R, Num(0))), Rd("o", "l")>>, <<-3, 0, 1, 5>>),
  P("latchx", <<InS, InR, SIn("d", "signal-M", 5), SIn("e", "signal-E", 0), Mem("l", TL), Mem("m", "signal-M"), La("set_reset", Num(1), Bin(">", S, Num(0)), Bin(">", R, Num(0))),
                Wr("m", D, Bin(">", E, Num(0))), Rd("o", "l"), Rd("p", "m")>>, <<0, 1, 5>>)
 }
\* a reader that combines the cell with ANOTHER source of the cell's own signal type (not the cell's data): the cell's
\* feedback wire has a fixed colour, the other source must go on the other one
InD2 == SIn("d", "signal-D", 5)
Foreign == {P("foreign", <<InD2, InX, InE, Mem("m", TM), Wr("m", Proj(D, TName(TM)), Bin(">", E, Num(0))), Rd("o", "m"), SLet("Signal", "p", v)>>, <<-3, 0, 1, 5>>) :
              v \in {Bin("*", ReadE("m"), X), Bin("-", X, ReadE("m")), CondE(Bin(">", ReadE("m"), X), Num(1))}}
\* the enable is a NAMED arithmetic value that something else consumes too (a reader of the name, the data of a second cell), or an
\* inline arithmetic expression: the cell's gates must see it on the reserved enable signal while every other consumer of the
\* name still finds it on its own type (fourth seeded round: the combinator computing the enable retyped in place)
LV == Ref("lv")
DomEn == <<0, 1, 2, 5>>
EnAlias == {P("enalias", <<InD, InE>> \o (IF a.k = "bin" /\ a.r = F THEN <<InF>> ELSE <<>>) \o <<SLet("Signal", "lv", a), Mem("m", TM), Wr("m", D, LV), Rd("o", "m"), SLet("Signal", "p", Bin("+", LV, Num(1)))>>, DomEn) :
              a \in {Bin("*", E, Num(2)), Bin("+", E, F), Bin("/", E, Num(2)), Bin("%", E, Num(2))}}
  \cup {P("enalias", <<InD, InE, InF, SLet("Signal", "lv", a), Mem("m", TM), Mem("n", "signal-N"), Wr("n", Proj(LV, TName("signal-N")), Bin(">", F, Num(0))), Wr("m", D, LV), Rd("o", "m"), Rd("p", "n")>>, DomEn) :
              a \in {Bin("*", E, Num(2)), Bin("/", E, Num(2))}}
  \cup {P("enalias", <<InD, InE, InF, Mem("m", TM), SLet("Signal", "lv", Bin("*", E, Num(3))), Wr("m", D, LV), Rd("o", "m"), SLet("Signal", "q", Bin(">", LV, F))>>, DomEn)}
  \cup {P("enalias", <<InD, InE>> \o (IF a.r = F THEN <<InF>> ELSE <<>>) \o <<Mem("m", TM), Wr("m", D, a), Rd("o", "m")>>, DomEn) : a \in {Bin("*", E, Num(2)), Bin("+", E, F)}}
Cells == EnAlias \cup Cell1 \cup Shared \cup Readers \cup Two \cup CellSameType \cup SameEnable \cup EarlyReaders \cup Foreign
\* set and reset watch two DIFFERENT inputs of ONE signal type (two sources of the same type are legal; each condition must read
\* its own source), directly and through a derived alias
InS2 == SIn("s", "signal-S", 0)
InR2 == SIn("r", "signal-S", 0)
LatchSameTwo == {P("latch2s", <<InS2, InR2, Mem("l", TL), La(mode, v, sr[1], sr[2]), Rd("o", "l")>>, sr[3]) :
                   mode \in Modes, v \in {Num(1), Num(5)},
                   sr \in {<<Bin(">", S, Num(0)), Bin(">", R, Num(0)), <<-3, 0, 1, 5>> >>, <<Bin("<", S, Num(2)), Bin(">=", R, Num(5)), <<0, 1, 2, 5, 6>> >>,
                           <<Bin("==", S, Num(1)), Bin("!=", R, Num(0)), <<-3, 0, 1, 5>> >>}}
   \cup {P("latch2s", <<SIn("x", "signal-X", 0), SLet("Signal", "y", Bin("+", X, Num(5))), Mem("l", TL), La(mode, Num(1), Bin("<", X, Num(2)), Bin(">=", Ref("y"), Num(9))), Rd("o", "l")>>,
             <<-3, 0, 1, 2, 3, 4, 5, 6, 7, MaxI>>) : mode \in Modes}
\* set / reset on ONE input, every combination of strict / inclusive bounds and relative position of the two constants (below, equal,
\* above), in both directions: the conditions are disjoint, touch in one point, or overlap
LatchBounds == {P("latch1b", <<SIn("x", "signal-X", 0), Mem("l", TL), La(mode, Num(1), sr[1], sr[2]), Rd("o", "l")>>, <<1, 2, 3, 4, 5>>) :
                  mode \in Modes,
                  sr \in {<<Bin(lo, X, Num(c[1])), Bin(hi, X, Num(c[2]))>> : lo \in {"<", "<="}, hi \in {">", ">="}, c \in {<<3, 3>>, <<3, 4>>, <<4, 3>>}}
                     \cup {<<Bin(hi, X, Num(c[1])), Bin(lo, X, Num(c[2]))>> : lo \in {"<", "<="}, hi \in {">", ">="}, c \in {<<3, 3>>, <<3, 4>>, <<4, 3>>}}}
Latches == LatchTwo \cup LatchOne \cup LatchMore \cup LatchSameType \cup LatchSameTwo \cup LatchBounds
ASSUME PrintT(<<"NPROGS", Cardinality(Cells), Cardinality(Latches)>>)
ASSUME JsonSerialize(IOEnv.GEN_OUT, SetToSeq(Cells \cup Latches))
=============================================================================
