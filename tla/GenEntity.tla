----------------------------- MODULE GenEntity -----------------------------
(***************************************************************************)
(* Generator specifications for C06 (entity conditions) and C09 (placed    *)
(* entities).                                                              *)
(***************************************************************************)
EXTENDS Facto, FiniteSetsExt, SequencesExt, Json, IOUtils

A == Ref("a")  B == Ref("b")
InA == SIn("a", "signal-A", 5)
InB == SIn("b", "signal-B", 2)
Place(n, proto, x, y) == SPlace(n, proto, Num(x), Num(y), <<>>)
Enable(n, e) == SProp(n, "enable", e)
Dom6 == <<-3, 0, 1, 3, 4, 5, 6>>
P6(grp, stmts, cins) == [grp |-> grp, stmts |-> stmts, src |-> Render(stmts), dom |-> Dom6, cins |-> cins]

Protos == {"small-lamp", "inserter", "fast-inserter", "transport-belt", "train-stop"}
Conds == {Bin(">", A, Num(3)), Bin("<=", A, Num(4)), Bin("==", A, Num(5)), Bin("!=", A, Num(0)), Bin(">", A, B), Bin("<", A, B),
          Bin(">", Bin("+", A, B), Num(3)), Bin("&&", Bin(">", A, Num(0)), Bin(">", B, Num(0))), Bin("||", Bin(">", A, Num(4)), Bin("<", B, Num(1))),
          A, Bin("*", A, B), Bin("-", A, Num(4)), CondE(Bin(">", A, Num(3)), B), Un("!", A), Bin(">", Num(4), A)}
Scalar == {P6("scalar", <<InA, InB, Place("e", pr, 0, 0), Enable("e", c)>>, <<>>) : pr \in Protos, c \in Conds}
\* the same conditions with BOTH inputs on one signal type (operands must then be told apart by wire colour), plus constant-on-the-left
\* comparisons and conditional values in every position
InB2 == SIn("b", "signal-A", 2)
Conds2 == {Bin(">", A, B), Bin("<", A, B), Bin(">", Bin("+", A, B), Num(3)), Bin("*", A, B), CondE(Bin(">", A, Num(3)), B), CondE(Bin("<", Num(5), A), B),
           CondE(Bin(">=", Num(10), A), B), CondE(Bin("<", Num(3), A), Num(1)), Bin("<", Num(5), A), Bin("&&", Bin("<", Num(2), A), Bin(">", Num(9), B)),
           CondE(Bin("!=", Num(0), A), B), Bin("-", A, B)}
SameT == {P6("samet", <<InA, InB2, Place("e", pr, 0, 0), Enable("e", c)>>, <<>>) : pr \in {"small-lamp", "inserter"}, c \in Conds2}
     \cup {P6("samet", <<InA, InB, Place("e", "small-lamp", 0, 0), Enable("e", c)>>, <<>>) : c \in Conds2}
\* several entities sharing sources; the same condition on two entities; condition value also exported
Multi == {
  P6("multi", <<InA, InB, Place("e", "small-lamp", 0, 0), Place("f", "inserter", 3, 0), Enable("e", Bin(">", A, Num(3))), Enable("f", Bin(">", A, Num(3)))>>, <<>>),
  P6("multi", <<InA, InB, Place("e", "small-lamp", 0, 0), Place("f", "small-lamp", 2, 0), Place("g", "small-lamp", 4, 0),
                Enable("e", Bin(">", A, Num(3))), Enable("f", Bin("<", A, Num(3))), Enable("g", Bin("==", A, B))>>, <<>>),
  P6("multi", <<InA, InB, SLet("Signal", "s", Bin("+", A, B)), Place("e", "small-lamp", 0, 0), Enable("e", Bin(">", Ref("s"), Num(4))), SLet("Signal", "r", Bin("*", Ref("s"), Num(2)))>>, <<>>),
  P6("multi", <<InA, InB, SLet("Signal", "c", Bin(">", A, Num(3))), Place("e", "small-lamp", 0, 0), Place("f", "inserter", 2, 0), Enable("e", Ref("c")), Enable("f", Un("!", Ref("c")))>>, <<>>),
  P6("multi", <<InA, InB, Place("e", "pump", 0, 0), Enable("e", Bin(">", A, Num(3)))>>, <<>>),
  P6("multi", <<InA, InB, Place("e", "power-switch", 0, 0), Enable("e", Bin(">", A, Num(3)))>>, <<>>)
 }
\* contents read through .output
Chest(n, x, y) == SPlace(n, "steel-chest", Num(x), Num(y), <<>>)
CI(n) == <<[ent |-> n, item |-> "iron-plate"], [ent |-> n, item |-> "copper-plate"]>>
CO == EOut("c")
Cont == {
  P6("cont", <<Chest("c", 0, 0), SLet("Bundle", "co", CO), Place("e", pr, 3, 0), Enable("e", Bin(op, q, Num(k)))>>, CI("c")) :
      pr \in {"small-lamp", "inserter"}, op \in {">", "<", "=="}, q \in {AnyE(Ref("co")), AllE(Ref("co"))}, k \in {0, 5, 7}}
  \cup {
  P6("cont", <<Chest("c", 0, 0), SLet("Bundle", "co", CO), Place("e", "small-lamp", 3, 0), Enable("e", Bin(">", Sel(Ref("co"), "iron-plate"), Num(5)))>>, CI("c")),
  P6("cont", <<Chest("c", 0, 0), SLet("Bundle", "co", CO), SLet("Signal", "t", Bin("+", Sel(Ref("co"), "iron-plate"), Num(1))), Place("e", "small-lamp", 3, 0),
               Enable("e", Bin(">", Ref("t"), Num(7)))>>, CI("c")),
  P6("cont", <<Chest("c", 0, 0), SLet("Bundle", "co", CO), SLet("Bundle", "d", Bin("*", Ref("co"), Num(2)))>>, CI("c")),
  P6("cont", <<Chest("c", 0, 0), SLet("Bundle", "co", CO), SLet("Bundle", "d", Bin("*", Ref("co"), Num(2))), SLet("Bundle", "f", CondE(Bin(">", Ref("co"), Num(5)), Ref("co")))>>, CI("c")),
  P6("cont", <<InA, Chest("c", 0, 0), SLet("Bundle", "co", CO), SLet("Signal", "t", Bin("+", Sel(Ref("co"), "iron-plate"), A)), SLet("Signal", "v", Bin("*", Sel(Ref("co"), "copper-plate"), A))>>, CI("c")),
  P6("cont", <<Chest("c", 0, 0), Chest("k", 2, 0), SLet("Bundle", "tot", BLit(<<EOut("c"), EOut("k")>>)), Place("e", "small-lamp", 5, 0), Enable("e", Bin(">", AnyE(Ref("tot")), Num(7)))>>, CI("c") \o CI("k")),
  P6("cont", <<Chest("c", 0, 0), Chest("k", 2, 0), SLet("Bundle", "tot", BLit(<<EOut("c"), EOut("k")>>)), SLet("Bundle", "navg", Bin("/", Ref("tot"), Num(-2))),
               SLet("Bundle", "in1", BLit(<<Ref("navg"), EOut("c")>>)), Place("e", "inserter", 5, 0), Enable("e", Bin("<", AnyE(Ref("in1")), Num(0)))>>, CI("c") \o CI("k"))
 }
\* the same .output read evaluated TWICE in one sum (written twice, through two names, mixed with a second chest): it counts twice
CS(n, it) == Sel(EOut(n), it)
Twice == {
  P6("twice", <<Chest("c", 0, 0), Place("e", pr, 3, 0), Enable("e", Bin(">", Bin("+", CS("c", "iron-plate"), CS("c", "iron-plate")), Num(k)))>>, CI("c")) : pr \in {"small-lamp", "inserter"}, k \in {5, 9}}
  \cup {
  P6("twice", <<Chest("c", 0, 0), SLet("Bundle", "p", EOut("c")), SLet("Bundle", "q", EOut("c")), Place("e", "small-lamp", 3, 0),
                Enable("e", Bin(">", Bin("+", Sel(Ref("p"), "iron-plate"), Sel(Ref("q"), "iron-plate")), Num(7)))>>, CI("c")),
  P6("twice", <<Chest("c", 0, 0), Chest("k", 2, 0), Place("e", "small-lamp", 5, 0),
                Enable("e", Bin(">", Bin("+", Bin("+", CS("c", "iron-plate"), CS("k", "iron-plate")), CS("c", "iron-plate")), Num(9)))>>, CI("c") \o CI("k")),
  P6("twice", <<Chest("c", 0, 0), SLet("Signal", "t", Bin("+", CS("c", "iron-plate"), CS("c", "iron-plate"))), Place("e", "small-lamp", 3, 0), Enable("e", Bin(">", Ref("t"), Num(7)))>>, CI("c")),
  P6("twice", <<Chest("c", 0, 0), Place("e", "small-lamp", 3, 0), Enable("e", Bin(">", Bin("+", CS("c", "iron-plate"), CS("c", "copper-plate")), Num(7)))>>, CI("c")),
  P6("twice", <<Chest("c", 0, 0), Place("e", "small-lamp", 3, 0), Enable("e", Bin(">", Bin("*", CS("c", "iron-plate"), CS("c", "iron-plate")), Num(30)))>>, CI("c")),
  P6("twice", <<InA, Place("e", "small-lamp", 0, 0), Enable("e", Bin(">", Bin("+", A, A), Num(7)))>>, <<>>)
 }
\* conditional values with a CONSTANT output other than 1 as the condition (fourth seeded round: the inlining guard `output == 1`
\* widened to any non-zero constant): the entity is on exactly when cond : K is positive, so never for a negative K
CondK == {P6("condk", <<InA, InB, Place("e", pr, 0, 0), Enable("e", CondE(c, Num(k)))>>, <<>>) :
            pr \in {"small-lamp", "inserter"}, c \in {Bin(">", A, Num(3)), Bin("<=", A, Num(4)), Bin("<", Num(4), A), Bin(">", A, B)}, k \in {-2, 2, 5}}
C06All == CondK \cup Scalar \cup SameT \cup Multi \cup Cont \cup Twice

(* ------------------------------- C09 ------------------------------------ *)
P9(grp, stmts) == [grp |-> grp, stmts |-> stmts, src |-> Render(stmts)]
Sizes == {"small-lamp", "inserter", "steel-chest", "pump", "assembling-machine-1", "storage-tank", "power-switch", "train-stop", "transport-belt"}
\* negative coordinates are always refused by the layout stage of this compiler (fixed positions outside 0..max): a few are kept
\* (a refusal is outside the antecedent; an acceptance would be judged), the bulk of the family is non-negative
Single == {P9("single", <<Place("e", pr, x, y)>>) : pr \in Sizes, x \in {0, 7, 12}, y \in {0, 5, 9}}
          \cup {P9("single", <<Place("e", pr, c[1], c[2])>>) : pr \in {"small-lamp", "storage-tank"}, c \in {<<-7, 0>>, <<0, -5>>, <<-7, -5>>}}
Props9 == {
  P9("props", <<SPlace("e", "inserter", Num(0), Num(0), <<[k |-> "direction", v |-> Num(4)]>>)>>),
  P9("props", <<SPlace("e", "inserter", Num(0), Num(0), <<[k |-> "direction", v |-> Num(8)]>>), SPlace("f", "transport-belt", Num(2), Num(0), <<[k |-> "direction", v |-> Num(12)]>>)>>),
  P9("props", <<SPlace("e", "small-lamp", Num(0), Num(0), <<[k |-> "always_on", v |-> Num(1)]>>)>>),
  P9("props", <<SPlace("e", "small-lamp", Num(0), Num(0), <<[k |-> "use_colors", v |-> Num(1)], [k |-> "always_on", v |-> Num(1)]>>)>>),
  \* ZERO-valued properties: switching OFF what the prototype has on by default must survive (and restating a default must be harmless)
  P9("props", <<SPlace("s", "train-stop", Num(0), Num(0), <<[k |-> "send_to_train", v |-> Num(0)]>>)>>),
  P9("props", <<SPlace("s", "train-stop", Num(0), Num(0), <<[k |-> "send_to_train", v |-> Num(1)], [k |-> "read_from_train", v |-> Num(1)]>>)>>),
  P9("props", <<SPlace("s", "train-stop", Num(0), Num(0), <<[k |-> "send_to_train", v |-> Num(0)], [k |-> "read_from_train", v |-> Num(0)]>>),
                SPlace("c", "selector-combinator", Num(0), Num(6), <<[k |-> "select_max", v |-> Num(0)]>>)>>),
  P9("props", <<SPlace("c", "selector-combinator", Num(0), Num(0), <<[k |-> "select_max", v |-> Num(1)]>>)>>),
  P9("props", <<SPlace("e", "small-lamp", Num(0), Num(0), <<[k |-> "always_on", v |-> Num(0)], [k |-> "use_colors", v |-> Num(0)]>>)>>)
 }
\* user-placed entities of the kinds the compiler also makes itself (poles, combinators): standing alone, next to something,
\* compiled with the matching pole option as well
UserMade == {
  P9("usermade", <<Place("l", "small-lamp", 0, 0), Place("k", "small-lamp", 2, 0), Place("p", pole, 2, 2), Place("q", pole, 14, 2)>>) :
      pole \in {"small-electric-pole", "medium-electric-pole", "big-electric-pole", "substation"}}
  \cup {P9("usermade", <<Place("l", "small-lamp", 0, 0), Place("c", "constant-combinator", 4, 0), Place("d", "arithmetic-combinator", 8, 0), Place("g", "decider-combinator", 12, 4)>>),
        P9("usermade", <<InA, SLet("Signal", "r", Bin("+", A, Num(1))), Place("p", "medium-electric-pole", 20, 3), Place("c", "constant-combinator", 24, 3)>>)}
Loops == {
  P9("loop", <<SFor("i", IRange(Num(a), Num(b), Num(s)), <<SPlace("e", "small-lamp", Bin("*", Bin("+", Ref("i"), Num(2)), Num(2)), Num(0), <<>>)>>)>>) :
      a \in {0, 3, -2}, b \in {0, 3, 5, -2}, s \in {0, 1, 2, -1}}
  \cup {
  P9("loop", <<SFor("i", IList(<<1, 5, -4>>), <<SPlace("e", "inserter", Bin("+", Ref("i"), Num(6)), Bin("+", Ref("i"), Num(5)), <<>>)>>)>>),
  P9("loop", <<SFor("i", IRange(Num(0), Num(3), Num(0)), <<SFor("j", IRange(Num(0), Num(2), Num(0)), <<SPlace("e", "small-lamp", Bin("*", Ref("i"), Num(2)), Bin("*", Ref("j"), Num(3)), <<>>)>>)>>)>>),
  P9("loop", <<SInt("n", Num(4)), SInt("w", Bin("+", Ref("n"), Num(1))), SFor("i", IRange(Num(0), Ref("n"), Num(0)), <<SPlace("e", "steel-chest", Bin("*", Ref("i"), Ref("w")), Num(2), <<>>)>>)>>),
  P9("loop", <<SFor("i", IRange(Num(0), Num(3), Num(0)), <<SInt("x", Bin("+", Bin("*", Ref("i"), Num(3)), Num(1))), SPlace("e", "assembling-machine-1", Ref("x"), Num(0), <<>>),
                SPlace("l", "small-lamp", Ref("x"), Num(4), <<>>)>>)>>)
 }
Funcs == {
  P9("func", <<SFunc("mk", <<[ty |-> "int", n |-> "x"], [ty |-> "int", n |-> "y"]>>, <<SPlace("e", "small-lamp", Ref("x"), Ref("y"), <<>>)>>, <<>>),
               SExpr(CallE("mk", <<Num(0), Num(0)>>)), SExpr(CallE("mk", <<Num(3), Num(1)>>)), SExpr(CallE("mk", <<Bin("-", Num(2), Num(-4)), Num(2)>>))>>),
  P9("func", <<SFunc("mk", <<[ty |-> "int", n |-> "x"]>>, <<SPlace("e", "inserter", Ref("x"), Num(0), <<>>), SPlace("f", "steel-chest", Bin("+", Ref("x"), Num(1)), Num(0), <<>>)>>, <<>>),
               SFor("i", IRange(Num(0), Num(3), Num(0)), <<SExpr(CallE("mk", <<Bin("*", Ref("i"), Num(3))>>))>>)>>),
  P9("func", <<SFunc("inner", <<[ty |-> "int", n |-> "x"]>>, <<SPlace("e", "small-lamp", Ref("x"), Num(5), <<>>)>>, <<>>),
               SFunc("outer", <<[ty |-> "int", n |-> "x"]>>, <<SExpr(CallE("inner", <<Ref("x")>>)), SExpr(CallE("inner", <<Bin("+", Ref("x"), Num(2))>>))>>, <<>>),
               SExpr(CallE("outer", <<Num(0)>>)), SExpr(CallE("outer", <<Num(6)>>))>>)
 }
\* parameters / callee locals named like something in the CALLER's scope (loop iterator, global int, caller entity)
Shadow9 == {
  P9("shadow", <<SFunc("lamp_at", <<[ty |-> "int", n |-> "i"]>>, <<SPlace("e", "small-lamp", Ref("i"), Num(0), <<>>)>>, <<>>),
                 SFor("i", IRange(Num(0), Num(3), Num(0)), <<SExpr(CallE("lamp_at", <<Bin("+", Ref("i"), Num(4))>>))>>)>>),
  P9("shadow", <<SInt("x", Num(3)), SFunc("chest_at", <<[ty |-> "int", n |-> "x"], [ty |-> "int", n |-> "row"]>>, <<SPlace("c", "steel-chest", Bin("+", Ref("x"), Num(1)), Ref("row"), <<>>)>>, <<>>),
                 SExpr(CallE("chest_at", <<Num(10), Num(0)>>)), SExpr(CallE("chest_at", <<Bin("*", Ref("x"), Num(5)), Num(2)>>))>>),
  P9("shadow", <<SInt("x", Num(3)), SInt("y", Num(7)), SFunc("at", <<[ty |-> "int", n |-> "y"], [ty |-> "int", n |-> "x"]>>, <<SPlace("c", "small-lamp", Ref("x"), Bin("-", Num(20), Ref("y")), <<>>)>>, <<>>),
                 SExpr(CallE("at", <<Ref("x"), Ref("y")>>)), SExpr(CallE("at", <<Num(1), Num(2)>>))>>),
  P9("shadow", <<SFunc("inner", <<[ty |-> "int", n |-> "i"]>>, <<SPlace("e", "small-lamp", Bin("*", Ref("i"), Num(2)), Num(6), <<>>)>>, <<>>),
                 SFor("i", IList(<<5, 1>>), <<SFor("j", IRange(Num(0), Num(2), Num(0)), <<SExpr(CallE("inner", <<Bin("+", Ref("i"), Ref("j"))>>))>>)>>)>>),
  P9("shadow", <<SPlace("e", "steel-chest", Num(0), Num(4), <<>>), SFunc("mk", <<[ty |-> "int", n |-> "x"]>>, <<SPlace("e", "small-lamp", Ref("x"), Num(0), <<>>)>>, <<>>),
                 SExpr(CallE("mk", <<Num(2)>>)), SExpr(CallE("mk", <<Num(4)>>))>>)
 }
Mixed == {
  P9("mixed", <<InA, InB, SLet("Signal", "r", Bin("+", Bin("*", A, B), Num(1))), Place("e", "small-lamp", 0, 0), Enable("e", Bin(">", Ref("r"), Num(3))), Place("f", "steel-chest", 20, 0),
                Place("g", "inserter", 21, 0)>>),
  P9("mixed", <<InA, SFor("i", IRange(Num(0), Num(4), Num(0)), <<SPlace("e", "small-lamp", Bin("*", Ref("i"), Num(2)), Num(0), <<>>), SProp("e", "enable", Bin(">", A, Ref("i")))>>)>>)
 }
\* more than 500 entities: the layout engine switches to its component decomposition; every one of the 600 lamps must stay where it was put
Big9 == {P9("big", <<InA, SFor("i", IRange(Num(0), Num(30), Num(0)), <<SFor("j", IRange(Num(0), Num(20), Num(0)), <<SPlace("e", "small-lamp", Bin("*", Ref("i"), Num(2)), Bin("*", Ref("j"), Num(2)), <<>>)>>)>>),
                    Place("f", "small-lamp", 70, 0), Enable("f", Bin(">", A, Num(3)))>>)}
C09All == Single \cup Props9 \cup Loops \cup Funcs \cup Mixed \cup Shadow9 \cup UserMade \cup Big9
ASSUME PrintT(<<"NPROGS", Cardinality(C06All), Cardinality(C09All)>>)
ASSUME JsonSerialize(IOEnv.GEN_OUT, SetToSeq({[p EXCEPT !.grp = "c06:" \o p.grp] : p \in C06All}) \o SetToSeq({[p EXCEPT !.grp = "c09:" \o p.grp] : p \in C09All}))
=============================================================================
