------------------------------- MODULE Import -------------------------------
(***************************************************************************)
(* Design model of the import preprocessor (preprocess_imports): textual   *)
(* inclusion with a set of already processed files.  One action per        *)
(* decision of the code: Inline (first time a file is met: push it),       *)
(* Skip (file already processed: a comment is left), Pop (file exhausted). *)
(* Files are identified by their resolved name.                            *)
(***************************************************************************)
EXTENDS Integers, Sequences, FiniteSets

VARIABLES i_imports,   \* the import graph (never changes): file -> sequence of file names it imports, in textual order;
                       \* the main program is "<main>"
          i_stack,     \* sequence of [file, pos]: files being expanded and how many of their imports are done
          i_processed, \* files inlined so far
          i_inlined    \* the order in which files were inlined
ivars == <<i_imports, i_stack, i_processed, i_inlined>>
Files == DOMAIN i_imports
Imports == i_imports

IInit(g) == i_imports = g /\ i_stack = <<[file |-> "<main>", pos |-> 0]>> /\ i_processed = {} /\ i_inlined = <<>>
Top == i_stack[Len(i_stack)]
HasNext == Len(i_stack) > 0 /\ Top.pos < Len(Imports[Top.file])
NextFile == Imports[Top.file][Top.pos + 1]
Advance(st) == [st EXCEPT ![Len(st)].pos = @ + 1]
Inline == /\ HasNext /\ NextFile \notin i_processed
          /\ i_processed' = i_processed \cup {NextFile}
          /\ i_inlined' = Append(i_inlined, NextFile)
          /\ i_stack' = Append(Advance(i_stack), [file |-> NextFile, pos |-> 0])
          /\ UNCHANGED i_imports
Skip == /\ HasNext /\ NextFile \in i_processed
        /\ i_stack' = Advance(i_stack) /\ UNCHANGED <<i_imports, i_processed, i_inlined>>
Pop == /\ Len(i_stack) > 0 /\ ~HasNext
       /\ i_stack' = SubSeq(i_stack, 1, Len(i_stack) - 1) /\ UNCHANGED <<i_imports, i_processed, i_inlined>>
INext == Inline \/ Skip \/ Pop

NoDupI(s) == \A a, b \in DOMAIN s : a # b => s[a] # s[b]
OnceEach == NoDupI(i_inlined)                         \* a file is inlined at most once
Bounded == Len(i_stack) <= Cardinality(Files) + 1     \* the expansion stack cannot grow beyond the number of files
Terminates == <>(i_stack = <<>>)                      \* importing through a cycle or twice terminates
=============================================================================
