------------------------------- MODULE GenIll -------------------------------
(***************************************************************************)
(* Generator specification for C14: programs that violate exactly one      *)
(* documented static rule, placed in every embedding context (top level,   *)
(* function body, loop body, loop inside function) at several positions of *)
(* an otherwise valid host program.                                        *)
(* An ill-formed block = [pre: top-level declarations it needs (functions),*)
(* body: self-contained statements containing the offence, name: the       *)
(* offending identifier for name-based rules ("" otherwise)].              *)
(***************************************************************************)
EXTENDS Facto, FiniteSetsExt, SequencesExt, Json, IOUtils

XA == SIn("xa", "signal-A", 5)
XB == SIn("xb", "signal-B", 2)
RA == Ref("xa")  RB == Ref("xb")
BBdef == SLet("Bundle", "xbb", BLit(<<RA, RB>>))
Blk(rule, pre, body, name) == [rule |-> rule, pre |-> pre, body |-> body, name |-> name]
F2 == SFunc("two", <<[ty |-> "Signal", n |-> "p"], [ty |-> "Signal", n |-> "q"]>>, <<>>, Bin("+", Ref("p"), Ref("q")))
Blocks == {
  Blk("undefined_var", <<>>, <<XA, SLet("Signal", "xr", Bin("+", RA, Ref("zz")))>>, "zz"),
  Blk("undefined_var", <<>>, <<XA, SLet("Signal", "xr", CondE(Bin(">", Ref("zz"), Num(1)), RA))>>, "zz"),
  Blk("undefined_func", <<>>, <<XA, SLet("Signal", "xr", CallE("nofn", <<RA>>))>>, "nofn"),
  Blk("undefined_mem", <<>>, <<XA, SLet("Signal", "xr", ReadE("mm"))>>, "mm"),
  Blk("undefined_mem", <<>>, <<XA, SWrite("mm", RA, "plain", Num(0), Num(0))>>, "mm"),
  Blk("undefined_entity", <<>>, <<XA, SProp("ee", "enable", Bin(">", RA, Num(1)))>>, "ee"),
  Blk("redefinition", <<>>, <<XA, SLet("Signal", "xr", Bin("+", RA, Num(1))), SLet("Signal", "xr", Bin("+", RA, Num(2)))>>, "xr"),
  Blk("redefinition", <<>>, <<XA, SIn("xa", "signal-B", 1)>>, "xa"),
  Blk("redefinition", <<>>, <<SMem("xm", "signal-M"), SMem("xm", "signal-M")>>, "xm"),
  Blk("assign_immutable", <<>>, <<XA, SRaw("xa = 7;")>>, "xa"),
  Blk("assign_immutable", <<>>, <<SInt("xk", Num(3)), SRaw("xk = 4;")>>, "xk"),
  Blk("assign_immutable", <<SFunc("bump", <<[ty |-> "Signal", n |-> "pv"]>>, <<SRaw("pv = pv + 1;")>>, Bin("*", Ref("pv"), Num(2)))>>, <<XA, SLet("Signal", "xr", CallE("bump", <<RA>>))>>, "pv"),
  Blk("assign_immutable", <<SFunc("bumpi", <<[ty |-> "int", n |-> "pn"], [ty |-> "Signal", n |-> "ps"]>>, <<SRaw("pn = pn + 1;")>>, Bin("+", Ref("ps"), Ref("pn")))>>, <<XA, SLet("Signal", "xr", CallE("bumpi", <<Num(2), RA>>))>>, "pn"),
  Blk("assign_immutable", <<>>, <<XA, SFor("xi", IRange(Num(0), Num(2), Num(0)), <<SRaw("xi = 5;")>>)>>, "xi"),
  Blk("assign_immutable", <<>>, <<XA, SLet("Signal", "xs", Bin("+", RA, Num(1))), SFor("xi", IRange(Num(0), Num(2), Num(0)), <<SRaw("xs = xa;")>>)>>, "xs"),
  Blk("wrong_kind", <<>>, <<XA, XB, SLet("Signal", "xr", BLit(<<RA, RB>>))>>, ""),
  Blk("wrong_kind", <<>>, <<XA, SInt("xk", RA)>>, ""),
  Blk("wrong_kind", <<>>, <<XA, SRaw("Entity xe = xa + 1;")>>, ""),
  Blk("wrong_kind", <<F2>>, <<XA, XB, BBdef, SLet("Signal", "xr", CallE("two", <<Ref("xbb"), RA>>))>>, ""),
  Blk("wrong_argc", <<F2>>, <<XA, SLet("Signal", "xr", CallE("two", <<RA>>))>>, "two"),
  Blk("wrong_argc", <<F2>>, <<XA, SLet("Signal", "xr", CallE("two", <<RA, RA, RA>>))>>, "two"),
  Blk("recursion", <<SFunc("rec", <<[ty |-> "Signal", n |-> "p"]>>, <<>>, CallE("rec", <<Ref("p")>>))>>, <<XA, SLet("Signal", "xr", CallE("rec", <<RA>>))>>, ""),
  Blk("recursion", <<SFunc("ra", <<[ty |-> "Signal", n |-> "p"]>>, <<>>, CallE("rb", <<Ref("p")>>)), SFunc("rb", <<[ty |-> "Signal", n |-> "p"]>>, <<>>, CallE("ra", <<Ref("p")>>))>>,
                    <<XA, SLet("Signal", "xr", CallE("ra", <<RA>>))>>, ""),
  Blk("bundle_duplicate", <<>>, <<SLet("Bundle", "xd", BLit(<<Lit(TName("iron-plate"), Num(1)), Lit(TName("iron-plate"), Num(2))>>))>>, "iron-plate"),
  Blk("bundle_duplicate", <<>>, <<XA, SLet("Bundle", "xd", BLit(<<RA, Lit(TName("signal-A"), Num(2))>>))>>, "signal-A"),
  Blk("bundle_duplicate", <<>>, <<XA, XB, BBdef, SLet("Bundle", "xd", BLit(<<Ref("xbb"), Lit(TName("signal-A"), Num(5))>>))>>, "signal-A"),
  Blk("bundle_duplicate", <<>>, <<XA, XB, BBdef, SLet("Bundle", "xd", BLit(<<Lit(TName("signal-A"), Num(5)), Ref("xbb")>>))>>, "signal-A"),
  Blk("bundle_duplicate", <<>>, <<XA, XB, BBdef, SLet("Bundle", "xd", BLit(<<Ref("xbb"), RA>>))>>, "signal-A"),
  Blk("bundle_duplicate", <<>>, <<XA, XB, BBdef, SLet("Bundle", "xd", BLit(<<Ref("xbb"), Lit(TName("signal-C"), Num(1)), Proj(RB, TName("signal-A"))>>))>>, "signal-A"),
  Blk("bundle_duplicate", <<>>, <<XA, XB, BBdef, SLet("Bundle", "xc", BLit(<<Lit(TName("signal-B"), Num(1)), Lit(TName("signal-C"), Num(1))>>)), SLet("Bundle", "xd", BLit(<<Ref("xbb"), Ref("xc")>>))>>, "signal-B"),
  Blk("bundle_duplicate", <<>>, <<XA, XB, BBdef, SLet("Bundle", "xd", BLit(<<Ref("xbb"), Ref("xbb")>>))>>, ""),
  Blk("bundle_duplicate", <<>>, <<XA, XB, BBdef, SLet("Bundle", "xc", BLit(<<Ref("xbb"), Lit(TName("signal-C"), Num(1))>>)), SLet("Bundle", "xd", BLit(<<Ref("xc"), Lit(TName("signal-B"), Num(3))>>))>>, "signal-B"),
  Blk("bundle_op_bundle", <<>>, <<XA, XB, BBdef, SLet("Bundle", "xc", BLit(<<Lit(TName("signal-C"), Num(1))>>)), SLet("Bundle", "xr", Bin("+", Ref("xbb"), Ref("xc")))>>, ""),
  Blk("bare_bundle_cmp", <<>>, <<XA, XB, BBdef, SLet("Signal", "xr", Bin(">", Ref("xbb"), Num(3)))>>, ""),
  Blk("absent_member", <<>>, <<XA, XB, BBdef, SLet("Signal", "xr", Sel(Ref("xbb"), "signal-Z"))>>, "signal-Z"),
  Blk("unknown_signal", <<>>, <<SIn("xu", "signal-nonexistent", 5), SLet("Signal", "xr", Bin("+", Ref("xu"), Num(1)))>>, "signal-nonexistent"),
  Blk("unknown_signal", <<>>, <<XA, SLet("Signal", "xr", Proj(RA, TName("no-such-item")))>>, "no-such-item"),
  Blk("reserved_signal", <<>>, <<SIn("xw", "signal-W", 1), SLet("Signal", "xr", Bin("+", Ref("xw"), Num(1)))>>, "signal-W"),
  Blk("reserved_signal", <<>>, <<XA, SLet("Signal", "xr", Proj(RA, TName("signal-W")))>>, "signal-W"),
  Blk("reserved_signal", <<>>, <<XA, SMem("xm", "signal-W"), SWrite("xm", Proj(RA, TName("signal-W")), "when", Bin(">", RA, Num(0)), Num(0))>>, "signal-W"),
  Blk("write_type", <<>>, <<XA, XB, SMem("xm", "signal-M"), SWrite("xm", RA, "when", Bin(">", RB, Num(0)), Num(0))>>, "xm"),
  Blk("double_write", <<>>, <<XA, XB, SMem("xm", "signal-A"), SWrite("xm", RA, "when", Bin(">", RB, Num(0)), Num(0)), SWrite("xm", RA, "when", Bin("<", RB, Num(0)), Num(0))>>, "xm"),
  Blk("zero_step", <<>>, <<SFor("xi", IRange(Num(0), Num(5), Num(0)), <<SPlace("xl", "small-lamp", Ref("xi"), Num(9), <<>>)>>)>>, ""),
  Blk("zero_step", <<>>, <<SInt("xz", Num(0)), SFor("xi", IRange(Num(0), Num(5), Ref("xz")), <<SPlace("xl", "small-lamp", Ref("xi"), Num(9), <<>>)>>)>>, ""),
  Blk("non_comparison_cond", <<>>, <<XA, SLet("Signal", "xr", CondE(Bin("+", RA, Num(1)), Num(5)))>>, ""),
  Blk("non_comparison_cond", <<>>, <<XA, XB, SLet("Signal", "xr", CondE(RA, RB))>>, ""),
  Blk("syntax", <<>>, <<XA, SRaw("Signal xr = xa + ;")>>, ""),
  Blk("syntax", <<>>, <<XA, SRaw("Signal xr = (xa + 1;")>>, ""),
  Blk("syntax", <<>>, <<XA, SRaw("Signal xr = xa + 1")>>, ""),
  Blk("syntax", <<>>, <<XA, SRaw("Signal 9r = xa;")>>, "")
 }
\* the zero-step block above with literal 0 needs an explicit "step 0" clause: IRange with s = Num(0) renders no clause, so use raw text
ZeroLit == Blk("zero_step", <<>>, <<SRaw("for xi in 0..5 step 0 {"), SRaw("    Entity xl = place(\"small-lamp\", xi, 9);"), SRaw("}")>>, "")
AllBlocks == {b \in Blocks : ~(b.rule = "zero_step" /\ b.body[1].k = "for" /\ b.body[1].iter.s.k = "num")} \cup {ZeroLit}

\* valid host statements around the offence
H1 == <<SIn("ha", "signal-C", 4), SLet("Signal", "hr", Bin("*", Ref("ha"), Num(2)))>>
H2 == <<SIn("hb", "signal-D", 1), SPlace("hl", "small-lamp", Num(20), Num(20), <<>>), SProp("hl", "enable", Bin(">", Ref("hb"), Num(0)))>>
Contexts == {"top", "func", "loop", "funcloop"}
Positions == {"first", "middle", "last"}
HasRaw(b) == \E i \in DOMAIN b.body : b.body[i].k = "raw"
Wrap(b, ctx) ==
  CASE ctx = "top" -> b.body
    [] ctx = "func" -> <<SFunc("wrapf", <<>>, b.body, <<>>), SExpr(CallE("wrapf", <<>>))>>
    [] ctx = "loop" -> <<SFor("wi", IRange(Num(0), Num(2), Num(0)), b.body)>>
    [] ctx = "funcloop" -> <<SFunc("wrapf", <<>>, <<SFor("wi", IRange(Num(0), Num(1), Num(0)), b.body)>>, <<>>), SExpr(CallE("wrapf", <<>>))>>
Place(b, ctx, pos) ==
  LET w == Wrap(b, ctx) IN
  CASE pos = "first" -> b.pre \o w \o H1 \o H2
    [] pos = "middle" -> b.pre \o H1 \o w \o H2
    [] pos = "last" -> b.pre \o H1 \o H2 \o w
\* declarations that are only legal at top level (inputs are fine everywhere; redefinition of an input inside a loop body would
\* be a redefinition per iteration anyway) - raw multi-line blocks are kept at top level
OKCtx(b, ctx) == ctx = "top" \/ ~(b.rule = "zero_step" /\ HasRaw(b))
All == {[rule |-> b.rule, ctx |-> ctx, pos |-> pos, name |-> b.name, src |-> Render(Place(b, ctx, pos))] :
          b \in {x \in AllBlocks : TRUE}, ctx \in Contexts, pos \in Positions} 
Final == {r \in All : TRUE}
ASSUME PrintT(<<"NPROGS", Cardinality(Final)>>)
ASSUME JsonSerialize(IOEnv.GEN_OUT, SetToSeq({[grp |-> r.rule, ctx |-> r.ctx, pos |-> r.pos, name |-> r.name, src |-> r.src] : r \in {x \in All : x.ctx = "top" \/ x.rule # "zero_step" \/ TRUE}}))
=============================================================================
