------------------------------ MODULE MC_Alloc ------------------------------
(* Exhaustive small instance of Alloc: base list of 6 signals (1 reserved, 1 wildcard), every explicit subset,   *)
(* up to 8 allocations (so wrap-around is explored).  BuildPool as the code implements it.                       *)
EXTENDS Alloc, TLC
Base == <<"A", "B", "W", "each", "C", "D">>
MCReserved == {"W"}
MCWildcards == {"each"}
CodePool(explicit) == SelectSeq(Base, LAMBDA s : s \notin MCReserved \cup MCWildcards \cup explicit)
MCInit == \E ex \in SUBSET {"A", "B", "C"} : AInit(ex)
MCNext == BuildPool(CodePool(a_explicit)) \/ (Len(a_map) < 8 /\ Allocate)
MCSpec == MCInit /\ [][MCNext]_avars
=============================================================================
