------------------------------- MODULE Colour -------------------------------
(***************************************************************************)
(* Design model of the wire-colour planner (layout/wire_router.py,         *)
(* plan_wire_colors): which of the two wire colours carries each signal    *)
(* source, so that two different sources of one signal type feeding one    *)
(* sink do not sum on a shared network.                                    *)
(*                                                                         *)
(*   instance   c_edges   sequence of [src, snk, sig, merge] (source ->    *)
(*                        sink wiring requirements in the order the code   *)
(*                        collects them; src = 0: no source; merge = 0:    *)
(*                        the edge does not come from a wire merge)        *)
(*              c_locked  colours fixed beforehand (memory feedback red,   *)
(*                        write enable green, bundle operands, ...)        *)
(*   a NODE is <<source, signal>>; two nodes CONFLICT when they feed the   *)
(*   same sink with the same signal and do not belong to the same merge    *)
(*   (members of one merge are meant to share a wire)                      *)
(*                                                                         *)
(* One action per step of the code's breadth-first two-colouring:          *)
(*   Start  the least unassigned node (sorted order) opens a component     *)
(*          with its locked colour, or red                                 *)
(*   Pop    the head of the queue takes its colour (a lock wins) and       *)
(*          visits its conflict neighbours in sorted order                 *)
(* Names are naturals whose order is the order of the code's strings       *)
(* (the binding ranks them), so "sorted" means the same on both sides.     *)
(***************************************************************************)
EXTENDS Integers, Sequences, FiniteSets, SequencesExt, Functions

CONSTANT LockedFirst
VARIABLES c_edges, c_locked,     \* the instance (never changes)
          c_adj,                 \* conflict graph: node -> set of nodes (computed once)
          c_assign,              \* node -> colour, partial
          c_queue,               \* sequence of <<node, desired colour>>
          c_bip,                 \* "is_bipartite" flag of the result
          c_conf                 \* recorded conflicts: sequence of <<a, b>> with a before b
cvars == <<c_edges, c_locked, c_adj, c_assign, c_queue, c_bip, c_conf>>

Colours == {"red", "green"}
Opp(c) == IF c = "red" THEN "green" ELSE "red"
NodeLess(a, b) == a[1] < b[1] \/ (a[1] = b[1] /\ a[2] < b[2])
SortNodes(S) == SetToSortSeq(S, NodeLess)
Pair(a, b) == IF NodeLess(a, b) THEN <<a, b>> ELSE <<b, a>>

(* ---- the conflict graph of an edge sequence ---- *)
Sourced(edges) == SelectSeq(edges, LAMBDA e : e.src # 0)
NodeOf(e) == <<e.src, e.sig>>
GraphNodes(edges) == {NodeOf(e) : e \in Range(Sourced(edges))}
Groups(edges) == {<<e.snk, e.sig>> : e \in Range(Sourced(edges))}
GroupSeq(edges, g) == SelectSeq(Sourced(edges), LAMBDA e : e.snk = g[1] /\ e.sig = g[2])
\* a node met twice in one group keeps the merge of its FIRST edge (the code's de-duplication)
FirstMerge(s, n) == s[CHOOSE i \in DOMAIN s : NodeOf(s[i]) = n /\ \A j \in 1..(i - 1) : NodeOf(s[j]) # n].merge
GroupConflicts(edges, g) == LET s == GroupSeq(edges, g)
                                ns == {NodeOf(e) : e \in Range(s)}
                            IN {<<a, b>> \in ns \X ns : a # b /\ ~(FirstMerge(s, a) # 0 /\ FirstMerge(s, a) = FirstMerge(s, b))}
ConflictPairs(edges) == UNION {GroupConflicts(edges, g) : g \in Groups(edges)}
AdjOf(edges) == LET cp == ConflictPairs(edges) IN [n \in GraphNodes(edges) |-> {p[2] : p \in {q \in cp : q[1] = n}}]
Pending == DOMAIN c_adj \cup DOMAIN c_locked
Adj(n) == IF n \in DOMAIN c_adj THEN c_adj[n] ELSE {}

CInit(edges, locked) == /\ c_edges = edges /\ c_locked = locked /\ c_adj = AdjOf(edges)
                        /\ c_assign = <<>> /\ c_queue = <<>> /\ c_bip = TRUE /\ c_conf = <<>>

Unassigned == Pending \ DOMAIN c_assign
\* LockedFirst: components are opened at locked nodes first (so that a lock inside a component decides the component's colours);
\* FALSE is the planner as it was before the repair "fix: wire colours - open components at locked nodes"
StartSet == IF LockedFirst /\ Unassigned \cap DOMAIN c_locked # {} THEN Unassigned \cap DOMAIN c_locked ELSE Unassigned
Start == /\ c_queue = <<>> /\ Unassigned # {}
         /\ LET n == SortNodes(StartSet)[1] IN
            c_queue' = << <<n, IF n \in DOMAIN c_locked THEN c_locked[n] ELSE "red">> >>
         /\ UNCHANGED <<c_edges, c_locked, c_adj, c_assign, c_bip, c_conf>>

\* the neighbour loop of one node: folds <<queue additions, bip, conflicts>> over the sorted neighbours
RECURSIVE Visit(_, _, _, _, _)
Visit(node, d, nbrs, i, acc) ==
  IF i > Len(nbrs) THEN acc ELSE
  LET nb == nbrs[i]
      lk == nb \in DOMAIN c_locked
      nd == IF lk THEN c_locked[nb] ELSE Opp(d)
      pr == Pair(node, nb)
      rec(cs) == IF \E k \in DOMAIN cs : cs[k] = pr THEN cs ELSE Append(cs, pr)
  IN IF nb \in DOMAIN c_assign                  \* (the node itself is never its own neighbour)
     THEN IF c_assign[nb] # nd
          THEN Visit(node, d, nbrs, i + 1, [acc EXCEPT !.bip = FALSE, !.conf = rec(@)])
          ELSE Visit(node, d, nbrs, i + 1, acc)
     ELSE IF lk /\ c_locked[nb] = d
          THEN Visit(node, d, nbrs, i + 1, [acc EXCEPT !.bip = FALSE, !.conf = rec(@), !.add = Append(@, <<nb, nd>>)])
          ELSE Visit(node, d, nbrs, i + 1, [acc EXCEPT !.add = Append(@, <<nb, nd>>)])

Pop == /\ c_queue # <<>>
       /\ LET node == Head(c_queue)[1]
              d == IF node \in DOMAIN c_locked THEN c_locked[node] ELSE Head(c_queue)[2]
          IN IF node \in DOMAIN c_assign
             THEN /\ c_bip' = (c_bip /\ c_assign[node] = d)
                  /\ c_queue' = Tail(c_queue)
                  /\ UNCHANGED <<c_assign, c_conf>>
             ELSE LET r == Visit(node, d, SortNodes(Adj(node)), 1, [add |-> <<>>, bip |-> c_bip, conf |-> c_conf]) IN
                  /\ c_assign' = (node :> d) @@ c_assign
                  /\ c_queue' = Tail(c_queue) \o r.add
                  /\ c_bip' = r.bip
                  /\ c_conf' = r.conf
       /\ UNCHANGED <<c_edges, c_locked, c_adj>>
CNext == Start \/ Pop
Done == c_queue = <<>> /\ Unassigned = {}

(* ---- what the rest of the compiler relies on ---- *)
Mono(a, b) == a \in DOMAIN c_assign /\ b \in DOMAIN c_assign /\ c_assign[a] = c_assign[b]
MonoPairs == {p \in ConflictPairs(c_edges) : Mono(p[1], p[2])}
\* a fixed colour is never overridden
LockRespected == \A n \in DOMAIN c_assign \cap DOMAIN c_locked : c_assign[n] = c_locked[n]
\* every source gets a colour (also the conflict-free ones)
TotalAtEnd == Done => DOMAIN c_assign = Pending
\* "bipartite" is reported exactly when no two conflicting sources share a colour
SoundAtEnd == Done /\ c_bip => MonoPairs = {}
FlagTruthful == Done /\ ~c_bip => MonoPairs # {}
\* every reported conflict is a real one
ConflictsReal == Done => \A k \in DOMAIN c_conf : <<c_conf[k][1], c_conf[k][2]>> \in MonoPairs
\* colours only ever get assigned, never changed
Monotone == [][\A n \in DOMAIN c_assign : n \in DOMAIN c_assign' /\ c_assign'[n] = c_assign[n]]_cvars
\* a proper colouring that respects the locks exists
Colourable == \E f \in [GraphNodes(c_edges) -> Colours] :
                 /\ \A n \in DOMAIN f \cap DOMAIN c_locked : f[n] = c_locked[n]
                 /\ \A p \in ConflictPairs(c_edges) : f[p[1]] # f[p[2]]
\* COMPLETENESS: a colourable instance is coloured. Holds for LockedFirst = TRUE; for FALSE only without locks (the start
\* node of a component took red before a lock further on was seen - TLC's counterexample: two sources of one signal
\* into one sink, the later-sorted one locked red)
Complete == Done /\ Colourable => c_bip
CSpecProps == <<LockRespected, TotalAtEnd, SoundAtEnd, FlagTruthful, ConflictsReal>>

(* ---- the whole run as a function (used by the binding) ---- *)
Sinks(edges, a, b) == {g[1] : g \in {h \in Groups(edges) : <<a, b>> \in GroupConflicts(edges, h)}}
=============================================================================
