--------------------------- MODULE KnownFindings ---------------------------
(***************************************************************************)
(* Trigger predicates of the OPEN entries of /verif/known_findings.json.   *)
(* KnownFinding(stmts, clause) is the id of the open finding that explains *)
(* a failure of `clause` on program `stmts`, or "" when there is none.     *)
(* A trigger is as narrow as the defect: the same clause outside the       *)
(* trigger, and any other clause inside it, is still a VIOLATION.          *)
(* `setup` checks that the ids below and the JSON file agree.              *)
(***************************************************************************)
EXTENDS Integers, Sequences, FiniteSets

Lets(stmts) == {i \in DOMAIN stmts : stmts[i].k = "let"}
Ins(stmts) == {i \in DOMAIN stmts : stmts[i].k = "in"}
InType(stmts, n) == IF \E i \in Ins(stmts) : stmts[i].n = n THEN stmts[CHOOSE i \in Ins(stmts) : stmts[i].n = n].t ELSE ""
\* all binary sub-expressions of an expression
RECURSIVE BinsE(_)
BinsE(e) == CASE e.k = "bin" -> {e} \cup BinsE(e.l) \cup BinsE(e.r)
              [] e.k \in {"un", "proj", "lit"} -> BinsE(e.e)
              [] e.k = "cond" -> BinsE(e.c) \cup BinsE(e.v)
              [] OTHER -> {}
AllBins(stmts) == UNION {BinsE(stmts[i].e) : i \in Lets(stmts)}
\* direct operand pairs {x, y} of input references with the same explicit type
SameTypePairs(stmts) == {{b.l.n, b.r.n} : b \in {b \in AllBins(stmts) : b.l.k = "ref" /\ b.r.k = "ref" /\ b.l.n # b.r.n
                            /\ InType(stmts, b.l.n) # "" /\ InType(stmts, b.l.n) = InType(stmts, b.r.n)}}

(* KF-C01-sametype-triangle: three inputs of one signal type combined pairwise (a*b, b*c, a*c): the wire-colour    *)
(* conflict graph is a triangle, which two colours cannot separate; the compiler silently merges two sources.     *)
Triangle(stmts) == \E p, q, r \in SameTypePairs(stmts) : p # q /\ q # r /\ p # r /\ Cardinality(p \cup q \cup r) = 3

(* KF-C01-merge-and-direct: s = a + b over same-typed inputs is a wire merge; using s together with a (or b) as   *)
(* the two operands of one operation needs a on two differently coloured wires; the compiler reads a twice.       *)
IsMergeOf(stmts, n, x) == \E i \in Lets(stmts) : stmts[i].n = n /\ stmts[i].e.k = "bin" /\ stmts[i].e.op = "+"
                             /\ stmts[i].e.l.k = "ref" /\ stmts[i].e.r.k = "ref" /\ x \in {stmts[i].e.l.n, stmts[i].e.r.n}
                             /\ InType(stmts, stmts[i].e.l.n) # "" /\ InType(stmts, stmts[i].e.l.n) = InType(stmts, stmts[i].e.r.n)
MergeAndDirect(stmts) == \E b \in AllBins(stmts) : b.l.k = "ref" /\ b.r.k = "ref" /\ (IsMergeOf(stmts, b.l.n, b.r.n) \/ IsMergeOf(stmts, b.r.n, b.l.n))

(* KF-C20-cse-alias: two named top-level results with the same expression (c and c : 1 count as the same) are     *)
(* merged by common-subexpression elimination and only one of them keeps an anchor.                                *)
NormE(e) == IF e.k = "cond" /\ e.v.k = "num" /\ e.v.v = 1 THEN e.c ELSE e
CseAlias(stmts) == \E i, j \in Lets(stmts) : i # j /\ NormE(stmts[i].e) = NormE(stmts[j].e)

(* KF-C02-scalar-operand-visible: in (bundle CMP x) : out, any(bundle) CMP x and all(bundle) CMP x with a SIGNAL x, *)
(* x travels on the wire the each/anything/everything combinator reads, so x itself is treated as a member: it      *)
(* appears in the filter result and takes part in the quantification.                                               *)
RECURSIVE SubE(_)
SubE(e) == {e} \cup (CASE e.k = "bin" -> SubE(e.l) \cup SubE(e.r)
                        [] e.k \in {"un", "proj", "lit"} -> SubE(e.e)
                        [] e.k = "cond" -> SubE(e.c) \cup SubE(e.v)
                        [] e.k = "blit" -> UNION {SubE(e.es[i]) : i \in DOMAIN e.es}
                        [] e.k \in {"sel", "any", "all"} -> SubE(e.b)
                        [] OTHER -> {})
AllSub(stmts) == UNION {SubE(stmts[i].e) : i \in Lets(stmts)}
IsBundleName(stmts, n) == \E i \in Lets(stmts) : stmts[i].n = n /\ stmts[i].ty = "Bundle"
\* ... or the OUTPUT value of the conditional is a scalar signal (any(b) > 0 : s): s is copied from the input, so it is wired onto the
\* same network and takes part in the wildcard test - of this statement and of every other one that reads the same bundle
WildCmp(stmts, c) == c.k = "bin" /\ c.op \in {"==", "!=", "<", "<=", ">", ">="}
                     /\ (c.l.k \in {"any", "all"} \/ (c.l.k = "ref" /\ IsBundleName(stmts, c.l.n)))
BundleCmpSignal(stmts) ==
  \/ \E e \in AllSub(stmts) : WildCmp(stmts, e) /\ e.r.k # "num"
  \/ \E e \in AllSub(stmts) : e.k = "cond" /\ WildCmp(stmts, e.c) /\ e.c.l.k \in {"any", "all"} /\ e.v.k = "ref" /\ ~IsBundleName(stmts, e.v.n)

(* KF-C02-nested-literal: a bundle literal that contains a NAMED bundle which is itself a literal ({ bb, s } with    *)
(* bb = { a, b, ... }): the members of the inner bundle are not wired to the consumers of the outer one.             *)
NestedLiteral(stmts) ==
  \E e \in AllSub(stmts) : e.k = "blit" /\ \E i \in DOMAIN e.es : e.es[i].k = "ref" /\
       \E j \in Lets(stmts) : stmts[j].n = e.es[i].n /\ stmts[j].ty = "Bundle" /\ stmts[j].e.k = "blit" /\ Len(e.es) > 1

KnownFinding0(stmts, clause) ==
  IF clause = "C01_value" /\ Triangle(stmts) THEN "KF-C01-sametype-triangle"
  ELSE IF clause = "C01_value" /\ MergeAndDirect(stmts) THEN "KF-C01-merge-and-direct"
  ELSE IF clause \in {"C20_exposed", "C20_label", "R2_exposed"} /\ CseAlias(stmts) THEN "KF-C20-cse-alias"
  ELSE ""
(* KF-C20-projection-label: the combinator that projects a named value onto another type (r = a | "t") is labelled  *)
(* with the name of its operand (a), not with the declared name r.                                                     *)
RECURSIVE ProjOfRef(_)
ProjOfRef(e) == e.k = "proj" /\ (e.e.k = "ref" \/ ProjOfRef(e.e))
\* (the degenerate chain: a plain alias `Signal show = x;` has no combinator of its own - the producer is x's, labelled x)
ProjectionLabel(stmts) == \E i \in Lets(stmts) : ProjOfRef(stmts[i].e) \/ stmts[i].e.k = "ref"

(* KF-C20-folded-condition-line: a conditional value whose condition the compiler evaluates itself ((3 > 2) : 7, (k <= 2) : x with *)
(* an int k) becomes a constant that carries the declared name but no source line in its description.                           *)
IsIntName(stmts, n) == \E i \in DOMAIN stmts : stmts[i].k = "int" /\ stmts[i].n = n
IsConstOperand(stmts, x) == x.k = "num" \/ (x.k = "ref" /\ IsIntName(stmts, x.n))
ConstCondition(stmts) == \E i \in Lets(stmts) : stmts[i].e.k = "cond" /\ stmts[i].e.c.k = "bin" /\ IsConstOperand(stmts, stmts[i].e.c.l) /\ IsConstOperand(stmts, stmts[i].e.c.r)
KnownFinding1(stmts, clause) ==
  IF clause = "C20_label" /\ ProjectionLabel(stmts) THEN "KF-C20-projection-label"
  ELSE IF clause = "C20_label" /\ ConstCondition(stmts) THEN "KF-C20-folded-condition-line" ELSE KnownFinding0(stmts, clause)
(* KF-C03-sametype-reader: an operation combines m.read() with an input of the cell's own signal type (p = m.read() * d,   *)
(* d and m both signal-M): the data input is wired onto the cell's feedback network, the cell sums it in every tick.       *)
MemType(stmts, m) == IF \E i \in DOMAIN stmts : stmts[i].k = "mem" /\ stmts[i].n = m
                     THEN stmts[CHOOSE i \in DOMAIN stmts : stmts[i].k = "mem" /\ stmts[i].n = m].t ELSE ""
\* (narrowed after the repair 9b8dddd: only when the same-typed operand is ALSO the data written to the cell - then data source and
\* feedback are both locked red and genuinely cannot be separated; a foreign same-typed source now takes the other colour)
RECURSIVE MentionsRef(_, _)
MentionsRef(e, n) == CASE e.k = "ref" -> e.n = n
                       [] e.k = "bin" -> MentionsRef(e.l, n) \/ MentionsRef(e.r, n)
                       [] e.k \in {"un", "proj", "lit"} -> MentionsRef(e.e, n)
                       [] e.k = "cond" -> MentionsRef(e.c, n) \/ MentionsRef(e.v, n)
                       [] OTHER -> FALSE
WritesData(stmts, m, n) == \E i \in DOMAIN stmts : stmts[i].k = "write" /\ stmts[i].m = m /\ MentionsRef(stmts[i].e, n)
SameTypeReader(stmts) ==
  \E b \in AllBins(stmts) : \/ (b.l.k = "read" /\ b.r.k = "ref" /\ MemType(stmts, b.l.m) # "" /\ InType(stmts, b.r.n) = MemType(stmts, b.l.m)
                                 /\ WritesData(stmts, b.l.m, b.r.n))
                             \/ (b.r.k = "read" /\ b.l.k = "ref" /\ MemType(stmts, b.r.m) # "" /\ InType(stmts, b.l.n) = MemType(stmts, b.r.m)
                                 /\ WritesData(stmts, b.r.m, b.l.n))

(* KF-C04-decider-chain: an UNCONDITIONAL write whose value ends in a conditional value / comparison keeps the two-gate   *)
(* cell, but no write-enable (signal-W = 1) source is emitted or the decider output is summed onto the feedback network:    *)
(* the cell is never written (stays 0) or doubles every tick.                                                               *)
PlainWrites(stmts) == {i \in DOMAIN stmts : stmts[i].k = "write" /\ stmts[i].mode = "plain"}
IsCmp(e) == e.k = "bin" /\ e.op \in {"==", "!=", "<", "<=", ">", ">="}
DeciderLast(e) == e.k = "cond" \/ IsCmp(e) \/ (e.k = "bin" /\ e.op = "+" /\ e.l.k = "cond")
DeciderChain(stmts) == \E i \in PlainWrites(stmts) : DeciderLast(stmts[i].e)
(* KF-C04-feedback-foreign: m.write(m.read() + a + a) / m.write(m.read() + (a | "t")): the loop is folded into arithmetic  *)
(* feedback and the second external source is wired onto the feedback network: the cell computes 2*m + ... per tick.       *)
FeedbackForeign(stmts) == \E i \in PlainWrites(stmts) : LET e == stmts[i].e IN
   e.k = "bin" /\ e.op = "+" /\ (e.r.k = "proj" \/ (e.l.k = "bin" /\ e.l.op = "+" /\ e.r.k = "ref" /\ e.l.r = e.r))

(* KF-C06-enable-dropped: entity.enable on a pump or power switch is accepted and silently ignored (no circuit condition). *)
EnableDropped(stmts) == \E i, j \in DOMAIN stmts : stmts[i].k = "place" /\ stmts[i].proto \in {"pump", "power-switch"}
                            /\ stmts[j].k = "prop" /\ stmts[j].p = "enable" /\ stmts[j].ent = stmts[i].n
(* KF-C06-negated-shared-condition: Signal c = a > 3; e.enable = c; f.enable = !c;  the comparison is inlined into e and   *)
(* its combinator removed; f gets the condition "signal = 0" on a signal nothing is wired to deliver: f is always enabled.   *)
NegatedShared(stmts) == \E j \in DOMAIN stmts : stmts[j].k = "prop" /\ stmts[j].p = "enable" /\ stmts[j].e.k = "un" /\ stmts[j].e.op = "!"
                            /\ stmts[j].e.e.k = "ref" /\ \E i \in Lets(stmts) : stmts[i].n = stmts[j].e.e.n /\ IsCmp(stmts[i].e)

(* KF-C01-shared-operand-merge: a value X consumed by two operations K1 and K2 is wired from ONE connector to both, which   *)
(* joins the input networks of K1 and K2; every other operand Y of K1 thereby also arrives at K2.  When K2 reads a signal   *)
(* Y can carry (another signal operand, or each/anything/everything) K2 computes with a foreign value; when the join closes *)
(* a cycle the circuit oscillates.  x = a * 2 + b; y = a * 3 + b; both compute a*2 + a*3 + b.  Footprint on the AST:        *)
(*   Merge: operations K1 # K2 share an operand X; K1 has another non-literal operand Y that K2 does not have; K2 has a     *)
(*   second non-literal operand or consumes a bundle.                                                                       *)
(* The same happens across the iterations of a loop (LoopShared).                                                           *)
RECURSIVE OpsE(_)
IsOp(e) == e.k \in {"bin", "cond", "un", "proj", "sel", "any", "all", "blit"}
Kids(e) == CASE e.k = "bin" -> {e.l, e.r} [] e.k = "cond" -> {e.c, e.v} [] e.k \in {"un", "proj"} -> {e.e}
             [] e.k \in {"sel", "any", "all"} -> {e.b} [] e.k = "blit" -> {e.es[i] : i \in DOMAIN e.es} [] OTHER -> {}
\* a comparison used as the condition of a conditional value, or inlined under any()/all(), is part of the consuming operation
Flat(K) == UNION {IF k.k = "bin" /\ K.k = "cond" /\ k = K.c THEN Kids(k) ELSE IF k.k \in {"any", "all"} THEN {k.b} ELSE {k} : k \in Kids(K)}
OpsE(e) == (IF IsOp(e) THEN {e} ELSE {}) \cup UNION {OpsE(k) : k \in Kids(e)}
RECURSIVE DeepOps(_)
DeepOps(ss) == UNION {IF ss[i].k \in {"let", "prop", "int", "expr"} THEN OpsE(ss[i].e)
                      ELSE IF ss[i].k = "write" THEN OpsE(ss[i].e) \cup OpsE(ss[i].a) \cup OpsE(ss[i].b)
                      ELSE IF ss[i].k = "for" THEN DeepOps(ss[i].body) ELSE {} : i \in DOMAIN ss}
NonLit(e) == e.k # "num"
BundleNames(stmts) == {stmts[i].n : i \in {i \in Lets(stmts) : stmts[i].ty = "Bundle"}}
ConsumesBundle(stmts, K) == K.k \in {"sel", "any", "all"} \/ \E z \in Flat(K) : z.k \in {"any", "all", "eout"} \/ (z.k = "ref" /\ z.n \in BundleNames(stmts))
Merge(stmts) ==
  \E K1, K2 \in DeepOps(stmts) : K1 # K2 /\
     \E X \in Flat(K1) \cap Flat(K2) : NonLit(X) /\
        \E Y \in Flat(K1) : Y # X /\ NonLit(Y) /\ Y \notin Flat(K2)
             /\ (ConsumesBundle(stmts, K2) \/ \E Z \in Flat(K2) : Z # X /\ NonLit(Z))
RECURSIVE DeepBins(_)
DeepBins(ss) == UNION {IF ss[i].k \in {"let", "prop", "int", "expr"} THEN BinsE(ss[i].e)
                       ELSE IF ss[i].k = "for" THEN DeepBins(ss[i].body) ELSE {} : i \in DOMAIN ss}
Declared0(ss) == {ss[i].n : i \in {i \in DOMAIN ss : ss[i].k \in {"int", "let", "mem", "place"}}}
RECURSIVE LoopShared(_)
LoopShared(ss) == \E i \in DOMAIN ss : ss[i].k = "for" /\
                     (LoopShared(ss[i].body) \/ \E b \in DeepBins(ss[i].body) : b.r.k = "ref" /\ b.l.k = "bin" /\ b.r.n \notin Declared0(ss[i].body))
SharedOperandMerge(stmts) == LoopShared(stmts) \/ Merge(stmts)

AllSub2(stmts) == UNION {SubE(stmts[i].e) : i \in {i \in DOMAIN stmts : stmts[i].k \in {"let", "prop"}}}
(* KF-C01-multicondition-sametype: a chain of comparisons joined by && / || is folded into ONE multi-condition decider; when two of   *)
(* the compared values are different sources of the SAME signal type they arrive on different colours, but the condition rows carry no   *)
(* network selection, so every row reads the sum of both.                                                                                *)
RECURSIVE CmpLeaves(_)
CmpLeaves(e) == IF e.k = "bin" /\ e.op \in {"&&", "||"} THEN CmpLeaves(e.l) \cup CmpLeaves(e.r) ELSE IF IsCmp(e) THEN {e} ELSE {}
RefsOfCmp(c) == {x.n : x \in {y \in {c.l, c.r} : y.k = "ref"}}
MultiCondSameType(stmts) ==
  \E e \in AllSub2(stmts) : e.k = "bin" /\ e.op \in {"&&", "||"} /\
     \E c1, c2 \in CmpLeaves(e) : \E n1 \in RefsOfCmp(c1), n2 \in RefsOfCmp(c2) :
        n1 # n2 /\ InType(stmts, n1) # "" /\ InType(stmts, n1) = InType(stmts, n2)

(* KF-C05-latch-early-reader: a reader of a latch cell that comes BEFORE the write(.., set=, reset=) statement is lowered against the   *)
(* placeholder cell and never wired to the latch combinator created by the write: it reads 0 for ever.                                  *)
RECURSIVE ReadsOf(_)
ReadsOf(e) == {x.m : x \in {y \in SubE(e) : y.k = "read"}}
LatchEarlyReader(stmts) ==
  \E w \in DOMAIN stmts : stmts[w].k = "write" /\ stmts[w].mode \in {"set_reset", "reset_set"} /\
     \E i \in 1..(w - 1) : stmts[i].k \in {"let", "prop"} /\ stmts[w].m \in ReadsOf(stmts[i].e)

KnownFinding(stmts, clause) ==
  IF clause \in {"C03_value", "C05_value"} /\ LatchEarlyReader(stmts) THEN "KF-C05-latch-early-reader"
  ELSE IF clause \in {"C01_value", "C06_enable"} /\ MultiCondSameType(stmts) THEN "KF-C01-multicondition-sametype"
  ELSE IF clause \in {"C01_value", "C02_bag", "C06_enable", "C01_settles", "R2_equal"} /\ SharedOperandMerge(stmts) THEN "KF-C01-shared-operand-merge"
  ELSE IF clause \in {"C06_condition", "C07_condition"} /\ EnableDropped(stmts) THEN "KF-C06-enable-dropped"
  ELSE IF clause = "C06_enable" /\ NegatedShared(stmts) THEN "KF-C06-negated-shared-condition"
  ELSE IF clause \in {"C04_iterates", "C04_reader"} /\ DeciderChain(stmts) THEN "KF-C04-decider-chain"
  ELSE IF clause \in {"C04_iterates", "C04_reader"} /\ FeedbackForeign(stmts) THEN "KF-C04-feedback-foreign"
  ELSE IF clause \in {"C03_value", "C01_settles"} /\ SameTypeReader(stmts) THEN "KF-C03-sametype-reader"
  ELSE IF clause \in {"C02_bag", "C01_value"} /\ BundleCmpSignal(stmts) THEN "KF-C02-scalar-operand-visible"
  ELSE IF clause = "C02_bag" /\ NestedLiteral(stmts) THEN "KF-C02-nested-literal"
  ELSE KnownFinding1(stmts, clause)

(* ---- findings that depend on how the program was compiled (record fields), not only on its text ---- *)
(* KF-C18-big-supply: the power planner lays big poles out with a supply radius of 5 tiles; the prototype's                  *)
(* supply_area_distance is 2: most consumers are outside every supply area with --power-poles big.                           *)
(* KF-C08-small-pole-span: grid poles double as circuit relays with a 9-tile span whatever their type; a small pole reaches  *)
(* 7.5 tiles: circuit wires to small poles between 7.5 and 9 tiles long.                                                     *)
(* KF-C18-split-grid: pole clusters are placed around distant groups of entities without a connecting line of poles:         *)
(* user entities >= 8 tiles apart give separate electric networks.                                                      *)
(* KF-C18-grid-before-layout: the pole grid is planned from ESTIMATED bounds before the entities are placed (and then trimmed); when   *)
(* the layout (e.g. a time-limited one) puts compiler-placed combinators outside that area they are unpowered, and pole clusters     *)
(* around scattered groups are not connected.  Distinguished by geometry: only combinators OUTSIDE the bounding box of all supply    *)
(* areas are excused (clause C18_powered_outside); an unpowered entity inside it, or an unpowered user entity, is C18_powered.       *)
PlacesFarApart(stmts) == \E i, j \in DOMAIN stmts : stmts[i].k = "place" /\ stmts[j].k = "place" /\ stmts[i].x.k = "num" /\ stmts[j].x.k = "num"
                            /\ (stmts[i].x.v - stmts[j].x.v >= 8 \/ stmts[i].y.v - stmts[j].y.v >= 8)
(* KF-C18-sparse-poles: for a few programs with scattered user-placed consumers the trimmed pole grid leaves two clusters without   *)
(* a copper connection (pole spacing > reach after trimming).  Identified by GEOMETRY (clause C18_grid_gap, Paste!BridgeableGap):  *)
(* clusters out of each other's reach whose nearest poles are diagonal lattice neighbours; poles that could be wired and are not,  *)
(* or clusters farther apart, stay C18_one_grid.                                                                                  *)
KnownFindingR(rec, clause) ==
  LET poles == IF "poles" \in DOMAIN rec THEN rec.poles ELSE "" IN
  IF clause = "C18_powered" /\ poles = "big" THEN "KF-C18-big-supply"
  ELSE IF clause = "C08_wire_reach" /\ poles = "small" THEN "KF-C08-small-pole-span"
  ELSE IF clause = "C18_one_grid" /\ poles # "" /\ PlacesFarApart(rec.stmts) THEN "KF-C18-split-grid"
  ELSE IF clause = "C18_grid_gap" /\ poles # "" /\ PlacesFarApart(rec.stmts) THEN "KF-C18-split-grid"
  ELSE IF clause = "C18_grid_gap" /\ poles # "" THEN "KF-C18-sparse-poles"
  ELSE IF clause = "C18_powered_outside" /\ poles # "" THEN "KF-C18-grid-before-layout"
  ELSE IF clause = "C18_one_grid" /\ poles # "" /\ ~(\E i \in DOMAIN rec.stmts : rec.stmts[i].k \in {"place", "for", "func"}) THEN "KF-C18-grid-before-layout"
  ELSE KnownFinding(rec.stmts, clause)
=============================================================================
