--------------------------- MODULE KnownFindings ---------------------------
(***************************************************************************)
(* Trigger predicates of the OPEN entries of /verif/known_findings.json.   *)
(* KnownFinding(stmts, clause) is the id of the open finding that explains *)
(* a failure of `clause` on program `stmts`, or "" when there is none.     *)
(* A trigger is as narrow as the defect: the same clause outside the       *)
(* trigger, and any other clause inside it, is still a VIOLATION.          *)
(* `setup` checks that the ids below and the JSON file agree.              *)
(***************************************************************************)
EXTENDS Integers, Sequences, FiniteSets

KnownFinding(stmts, clause) == ""
=============================================================================
