SPECIFICATION MCSpec
INVARIANT OnceEach
INVARIANT Bounded
PROPERTY Terminates
CHECK_DEADLOCK FALSE
