------------------------------- MODULE Refine -------------------------------
(***************************************************************************)
(* L3: Refine1 - the emitted circuit refines the source semantics.         *)
(*                                                                         *)
(* Product of Circuit(BP) (L1) with the Facto interpreter (L2) for every   *)
(* compile record of the batch.  Data.tla supplies                         *)
(*   BPs   blueprints exactly as emitted                                   *)
(*   Recs  << [id, stmts, u, mode, ...] >>   u = index of the blueprint    *)
(*   DomCap, Seed  bound on valuations per record / subset rotation        *)
(* Actions: Tick (all combinators update synchronously) and ChangeInput    *)
(* (environment changes one input; only when settled; only for records     *)
(* with mode = "hist").  Every clause of every property is a MONITOR: an   *)
(* invariant that prints <<"FAIL", id, clause, ...>> and stays TRUE, so    *)
(* one failing record does not hide the others; --replay re-runs a single  *)
(* record with Strict = TRUE which makes the same clauses real invariants. *)
(***************************************************************************)
EXTENDS Circuit, Facto, KnownFindings, TLCExt, SequencesExt

VARIABLES v_pid, v_val, v_out, v_tick, v_settled, v_mem
vars == <<v_pid, v_val, v_out, v_tick, v_settled, v_mem>>

PIDs == 1..Len(Recs)
U(p) == Recs[p].u
Stmts(p) == Recs[p].stmts

(* ------------------------- inputs and domains -------------------------- *)
InStmtsT == [p \in PIDs |-> SelectSeq(Stmts(p), LAMBDA s : s.k = "in")]
NIn(p) == Len(InStmtsT[p])
BaseB == {MinI, -65537, -7, -1, 0, 1, 2, 5, 65536, MaxI}
\* literals the program compares against / computes with: their neighbours are boundary values too
RECURSIVE LitsE(_)
LitsE(e) == CASE e.k = "num" -> {e.v}
              [] e.k = "bin" -> LitsE(e.l) \cup LitsE(e.r)
              [] e.k \in {"un", "proj", "lit"} -> LitsE(e.e)
              [] e.k = "cond" -> LitsE(e.c) \cup LitsE(e.v)
              [] e.k = "blit" -> UNION {LitsE(e.es[i]) : i \in DOMAIN e.es}
              [] e.k \in {"sel", "any", "all"} -> LitsE(e.b)
              [] e.k = "call" -> UNION {LitsE(e.args[i]) : i \in DOMAIN e.args}
              [] OTHER -> {}
RECURSIVE LitsS(_)
LitsS(s) == CASE s.k \in {"int", "let", "expr", "prop"} -> LitsE(s.e)
              [] s.k = "write" -> LitsE(s.e) \cup (IF s.mode = "plain" THEN {} ELSE LitsE(s.a)) \cup (IF s.mode \in {"set_reset", "reset_set"} THEN LitsE(s.b) ELSE {})
              [] s.k \in {"func", "for"} -> UNION {LitsS(s.body[i]) : i \in DOMAIN s.body}
              [] OTHER -> {}
Near(c) == {x \in {c - 1, c, c + 1} : TRUE}
LitDom(p) == UNION {Near(c) : c \in {c \in UNION {LitsS(Stmts(p)[i]) : i \in DOMAIN Stmts(p)} : c > -1000000 /\ c < 1000000}}
FullDomT == [p \in PIDs |-> IF "dom" \in DOMAIN Recs[p] THEN SeqSet(Recs[p].dom) ELSE BaseB \cup LitDom(p)]
\* when |D|^k exceeds DomCap every input gets a Seed-rotated subset (always a subset of the full domain)
RECURSIVE IPow(_, _)
IPow(b, e) == IF e = 0 THEN 1 ELSE IF b > 100000 THEN b ELSE b * IPow(b, e - 1)
SubSize(d, k) == LET S == {m \in 1..d : IPow(m, k) <= DomCap} IN IF S = {} THEN 1 ELSE Max(S)
SortedT == [p \in PIDs |-> SetToSortSeq(FullDomT[p], <)]
DomOf(p, i) ==
  LET D == SortedT[p]  d == Len(D)  k == NIn(p) IN
  IF k = 0 \/ IPow(d, k) <= DomCap THEN FullDomT[p]
  ELSE LET m == SubSize(d, k)  step == d \div m  off == Seed + 3 * i
       IN {D[((off + j * step) % d) + 1] : j \in 0..(m - 1)}
DomT == [p \in PIDs |-> [i \in 1..NIn(p) |-> DomOf(p, i)]]
ValsOf(p) == {vv \in [1..NIn(p) -> Int] : FALSE}  \* (unused; valuations are built by Init)
ValFn(p, vv) == [n \in {InStmtsT[p][i].n : i \in 1..NIn(p)} |-> vv[CHOOSE i \in 1..NIn(p) : InStmtsT[p][i].n = n]]

\* the constant combinator that carries declared input n (labelled "(input)") and its signal
InEntsT == [p \in PIDs |-> [i \in 1..NIn(p) |-> ByRole(U(p), "input", InStmtsT[p][i].n)]]
InSig(u, e) == LET F == FilterSeq(u, e) IN IF Len(F) >= 1 THEN Get(F[1], "name", NoSig) ELSE NoSig
\* environment override: every input combinator emits the chosen run-time value on its own signal
InpOf(p, vv) ==
  LET u == U(p)
      E == UNION {InEntsT[p][i] : i \in 1..NIn(p)}
      idx(e) == CHOOSE i \in 1..NIn(p) : e \in InEntsT[p][i]
  IN [e \in E |-> Single(u, InSig(u, e), vv[idx(e)])]

(* ----------------------------- expectation ----------------------------- *)
World(p, vv, mem) == Run(Stmts(p), ValFn(p, vv), <<>>, mem)
\* names some later statement consumes
RECURSIVE RefsE(_)
RefsE(e) == CASE e.k = "ref" -> {e.n}
              [] e.k = "bin" -> RefsE(e.l) \cup RefsE(e.r)
              [] e.k \in {"un", "lit"} -> RefsE(e.e) \cup (IF e.k = "lit" /\ "of" \in DOMAIN e.t THEN {e.t.of} ELSE {})
              [] e.k = "proj" -> RefsE(e.e) \cup (IF "of" \in DOMAIN e.t THEN {e.t.of} ELSE {})
              [] e.k = "cond" -> RefsE(e.c) \cup RefsE(e.v)
              [] e.k = "blit" -> UNION {RefsE(e.es[i]) : i \in DOMAIN e.es}
              [] e.k \in {"sel", "any", "all"} -> RefsE(e.b)
              [] e.k = "call" -> UNION {RefsE(e.args[i]) : i \in DOMAIN e.args}
              [] e.k = "eout" -> {e.n}
              [] OTHER -> {}
RECURSIVE RefsS(_)
RefsS(s) == CASE s.k \in {"int", "let", "expr", "prop"} -> RefsE(s.e)
              [] s.k = "write" -> RefsE(s.e) \cup (IF s.mode = "plain" THEN {} ELSE RefsE(s.a)) \cup (IF s.mode \in {"set_reset", "reset_set"} THEN RefsE(s.b) ELSE {})
              [] s.k = "place" -> RefsE(s.x) \cup RefsE(s.y)
              [] s.k \in {"func", "for"} -> (UNION {RefsS(s.body[i]) : i \in DOMAIN s.body}) \cup (IF s.k = "func" /\ "k" \in DOMAIN s.ret THEN RefsE(s.ret) ELSE {})
              [] OTHER -> {}
ConsumedT == [p \in PIDs |-> UNION {RefsS(Stmts(p)[i]) : i \in DOMAIN Stmts(p)}]
\* named results to observe: top-level Signal/Bundle declarations nothing consumes
OutNamesT == [p \in PIDs |-> {Stmts(p)[i].n : i \in {i \in DOMAIN Stmts(p) : Stmts(p)[i].k = "let"}} \ ConsumedT[p]]

(* ------------------------------ reporting ------------------------------ *)
\* a clause that fails on a record matching an open known finding (KnownFindings.tla) is reported as KNOWN, not FAIL
Fail(p, clause, info) ==
  LET kf == KnownFinding(Stmts(p), clause) IN
  IF kf # "" THEN PrintT(<<"KNOWN", Recs[p].id, clause, kf>>)
  ELSE IF Strict THEN FALSE ELSE PrintT(<<"FAIL", Recs[p].id, clause, info>>)
Reserved == Wild \cup {"signal-W"}

\* where named result n can be read: its anchor, or - when the producer is itself a constant combinator - that combinator
AnchorsOf(p, n) == ByRole(U(p), "anchor", n)
ConstsOf(p, n) == ByRole(U(p), "const", n) \cup ByRole(U(p), "input", n)

CheckScalar(p, n, ev, e, isConst) ==
  LET u == U(p)
      lab == Desc(u, e).sig
      sig == IF ev.free THEN lab ELSE ev.t
      obs == IF isConst THEN (IF sig \in SigsT[u] THEN StatVal(u, e, InpOf(p, v_val))[sig] ELSE 0)
             ELSE (IF sig \in SigsT[u] THEN ObsSig(u, e, sig, v_out, InpOf(p, v_val)) ELSE 0)
  IN /\ (obs = ev.v \/ Fail(p, "C01_value", [name |-> n, val |-> v_val, sig |-> sig, observed |-> obs, expected |-> ev.v]))
     /\ (ev.free \/ lab = ev.t \/ Fail(p, "C01_type", [name |-> n, label |-> lab, expected |-> ev.t]))
     /\ (~ev.free \/ (lab \notin Reserved /\ lab # "") \/ Fail(p, "C13_reserved", [name |-> n, label |-> lab]))

CheckBundle(p, n, ev, e) ==
  LET u == U(p)
      obs == ObsBag(u, e, v_out, InpOf(p, v_val))
      bad == {s \in SigsT[u] : obs[s] # BunGet(ev.b, s)} \cup {s \in BunNZ(ev.b) : s \notin SigsT[u]}
  IN bad = {} \/ Fail(p, "C02_bag", [name |-> n, val |-> v_val, signals |-> bad,
                                      observed |-> [s \in bad \cap SigsT[u] |-> obs[s]], expected |-> [s \in bad |-> BunGet(ev.b, s)]])

CheckName(p, n, w) ==
  LET ev == w.named[n]
      A == AnchorsOf(p, n)
      K == ConstsOf(p, n)
  IN IF Cardinality(A) = 1
     THEN LET e == CHOOSE e \in A : TRUE IN IF ev.kind = "bun" THEN CheckBundle(p, n, ev, e) ELSE CheckScalar(p, n, ev, e, FALSE)
     ELSE IF A = {} /\ Cardinality(K) = 1 /\ ev.kind = "sig"
     THEN CheckScalar(p, n, ev, CHOOSE e \in K : TRUE, TRUE)
     ELSE Fail(p, "C20_exposed", [name |-> n, anchors |-> Cardinality(A), consts |-> Cardinality(K)])

(* ------------------------------ behaviour ------------------------------ *)
MaxTick(p) == Len(Ents(U(p))) + 3
\* registers: p = settled states checked, 1000+p = initial valuations, 2000+p = valuations outside Defined,
\*            3000+p = settled states where the circuit sits in an unknown corner (not judged)
Reg(k, p) == k * 1000 + p
Bump(k, p) == TLCSet(Reg(k, p), TLCGet(Reg(k, p)) + 1)
ASSUME \A p \in PIDs : \A k \in 0..5 : TLCSet(Reg(k, p), 0)
\* registers 4/5: has this record shown at least two distinct expected observations? (non-triviality, evidence only)
Digest(w) == LET F[i \in 0..Len(w.order)] == IF i = 0 THEN 0 ELSE
                   LET x == w.named[w.order[i]] IN
                   Add32(Mul32(F[i-1], 31), IF x.kind = "bun" THEN FoldSet(LAMBDA t, acc : Add32(acc, x.b[t]), 0, DOMAIN x.b) ELSE x.v)
             IN F[Len(w.order)]
Track(p, d) == IF TLCGet(Reg(5, p)) = 0 THEN TLCSet(Reg(4, p), d) /\ TLCSet(Reg(5, p), 1)
               ELSE IF TLCGet(Reg(5, p)) = 1 /\ TLCGet(Reg(4, p)) # d THEN TLCSet(Reg(5, p), 2) ELSE TRUE

\* all valuations: one initial state per (record, valuation)
RECURSIVE Prod(_, _)
Prod(p, i) == IF i > NIn(p) THEN {<<>>} ELSE {<<x>> \o r : x \in DomT[p][i], r \in Prod(p, i + 1)}
Init == /\ v_pid \in PIDs
        /\ v_val \in Prod(v_pid, 1)
        /\ v_out = InitOut(U(v_pid))
        /\ v_tick = 0 /\ v_settled = FALSE /\ v_mem = <<>>
Tick == /\ ~v_settled /\ v_tick < MaxTick(v_pid)
        /\ v_out' = Step(U(v_pid), v_out, InpOf(v_pid, v_val))
        /\ v_settled' = (v_out' = v_out)
        /\ v_tick' = v_tick + 1
        /\ UNCHANGED <<v_pid, v_val, v_mem>>
Next == Tick
Spec == Init /\ [][Next]_vars

(* ------------------------------ monitors ------------------------------- *)
Supported(p) == UnsupT[U(p)] = {} /\ WiresOK(U(p))
CountInit == v_tick = 0 => Bump(1, v_pid)
Judge ==
  (v_settled /\ Supported(v_pid)) =>
     LET w == World(v_pid, v_val, v_mem) IN
     IF w.undef THEN Bump(2, v_pid)
     ELSE IF AnyUndef(U(v_pid), v_out, InpOf(v_pid, v_val)) THEN Bump(3, v_pid)
     ELSE /\ Bump(0, v_pid)
          /\ Track(v_pid, Digest(w))
          /\ \A n \in OutNamesT[v_pid] : CheckName(v_pid, n, w)
Settles == (v_tick = MaxTick(v_pid) /\ ~v_settled) => Fail(v_pid, "C01_settles", [val |-> v_val, ticks |-> v_tick])

Summary == \A p \in PIDs : PrintT(<<"SUMMARY", Recs[p].id, TLCGet(Reg(1, p)), TLCGet(Reg(0, p)), TLCGet(Reg(2, p)), TLCGet(Reg(3, p)),
                                    Cardinality(OutNamesT[p]), UnsupT[U(p)], TLCGet(Reg(5, p))>>)
=============================================================================
