------------------------------- MODULE Refine -------------------------------
(***************************************************************************)
(* L3: Refine1 / Refine2 - the emitted circuit(s) refine the source        *)
(* semantics and, for twin builds, each other.                             *)
(*                                                                         *)
(* Product of Circuit(BP) (L1, one or two blueprints in lock-step) with    *)
(* the Facto interpreter and its abstract memory machine (L2) for every    *)
(* compile record of the batch.  Data.tla supplies                         *)
(*   BPs     blueprints exactly as emitted                                 *)
(*   Recs    << [id, stmts, u, mode, (u2, stmts2, pin2), (cins)] >>        *)
(*           u / u2 = blueprint indices; stmts2 = twin program (defaults   *)
(*           to stmts); pin2 = values of inputs only the twin declares     *)
(*   Clauses the clause names this run judges (one property = its clauses) *)
(*   DomCap, Seed  bound on valuations per record / subset rotation        *)
(*   Strict  FALSE: clauses are MONITORS (print <<"FAIL",..>>, stay TRUE,  *)
(*           so one failing record does not hide the others);              *)
(*           TRUE (--replay): the same clauses are real invariants         *)
(* Actions: Tick (all combinators of all units update synchronously) and   *)
(* ChangeInput (environment changes ONE input and holds it; enabled only   *)
(* when settled; only for records with mode = "hist").                     *)
(***************************************************************************)
EXTENDS Paste, Facto, KnownFindings, TLCExt, SequencesExt

VARIABLES v_pid, v_val, v_out, v_tick, v_settled, v_mem, v_lost
vars == <<v_pid, v_val, v_out, v_tick, v_settled, v_mem, v_lost>>

PIDs == 1..Len(Recs)
Stmts(p) == Recs[p].stmts
\* units of a record: the build of P, and optionally a twin build
HasTwin(p) == "u2" \in DOMAIN Recs[p]
UnitsOf(p) == IF HasTwin(p) THEN <<Recs[p].u, Recs[p].u2>> ELSE <<Recs[p].u>>
StmtsOf(p, k) == IF k = 2 /\ "stmts2" \in DOMAIN Recs[p] THEN Recs[p].stmts2 ELSE Recs[p].stmts
U(p) == Recs[p].u
Mode(p) == IF "mode" \in DOMAIN Recs[p] THEN Recs[p].mode ELSE "val"
Active(clause) == clause \in Clauses

(* ------------------------- inputs and domains -------------------------- *)
(* environment-controlled quantities of a record:                          *)
(*   declared inputs of P (`Signal n = ("t", dv);`)                        *)
(*   contents of read entities: record field cins = <<[ent, item]>>        *)
InStmtsT == [p \in PIDs |-> SelectSeq(Stmts(p), LAMBDA s : s.k = "in")]
CInsT == [p \in PIDs |-> IF "cins" \in DOMAIN Recs[p] THEN Recs[p].cins ELSE <<>>]
NDecl(p) == Len(InStmtsT[p])
NIn(p) == NDecl(p) + Len(CInsT[p])
BaseB == {MinI, -65537, -7, -1, 0, 1, 2, 5, 65536, MaxI}
ContB == {0, 1, 7, 100}
\* literals the program compares against / computes with: their neighbours are boundary values too
RECURSIVE LitsE(_)
LitsE(e) == CASE e.k = "num" -> {e.v}
              [] e.k = "bin" -> LitsE(e.l) \cup LitsE(e.r)
              [] e.k \in {"un", "proj", "lit"} -> LitsE(e.e)
              [] e.k = "cond" -> LitsE(e.c) \cup LitsE(e.v)
              [] e.k = "blit" -> UNION {LitsE(e.es[i]) : i \in DOMAIN e.es}
              [] e.k \in {"sel", "any", "all"} -> LitsE(e.b)
              [] e.k = "call" -> UNION {LitsE(e.args[i]) : i \in DOMAIN e.args}
              [] OTHER -> {}
RECURSIVE LitsS(_)
LitsS(s) == CASE s.k \in {"int", "let", "expr", "prop"} -> LitsE(s.e)
              [] s.k = "write" -> LitsE(s.e) \cup (IF s.mode = "plain" THEN {} ELSE LitsE(s.a)) \cup (IF s.mode \in {"set_reset", "reset_set"} THEN LitsE(s.b) ELSE {})
              [] s.k \in {"func", "for"} -> UNION {LitsS(s.body[i]) : i \in DOMAIN s.body}
              [] OTHER -> {}
Near(c) == {c - 1, c, c + 1}
LitDom(p) == UNION {Near(c) : c \in {c \in UNION {LitsS(Stmts(p)[i]) : i \in DOMAIN Stmts(p)} : c > -1000000 /\ c < 1000000}}
\* a record may carry its own domain (histories use trimmed domains: thresholds +-1, a negative, MaxI)
FullDomT == [p \in PIDs |-> IF "dom" \in DOMAIN Recs[p] THEN SeqSet(Recs[p].dom) ELSE BaseB \cup LitDom(p)]
RECURSIVE IPow(_, _)
IPow(b, e) == IF e = 0 THEN 1 ELSE LET r == IPow(b, e - 1) IN IF r > 1000000 THEN r ELSE b * r     \* saturating
SubSize(d, k) == LET S == {m \in 1..d : IPow(m, k) <= DomCap} IN IF S = {} THEN 1 ELSE Max(S)
SortedT == [p \in PIDs |-> SetToSortSeq(FullDomT[p], <)]
\* when |D|^k exceeds DomCap every input gets a Seed-rotated subset (always a subset of the full domain)
DomOf(p, i) ==
  IF i > NDecl(p) THEN ContB
  ELSE LET D == SortedT[p]  d == Len(D)  k == NIn(p) IN
       IF IPow(d, k) <= DomCap THEN FullDomT[p]
       ELSE LET m == SubSize(d, k)  step == d \div m  off == Seed + 3 * i
            IN {D[((off + j * step) % d) + 1] : j \in 0..(m - 1)}
DomT == [p \in PIDs |-> [i \in 1..NIn(p) |-> DomOf(p, i)]]

\* run-time value of every declared input of program text `ss` under valuation vv of P's inputs
InNames(ss) == {ss[i].n : i \in {i \in DOMAIN ss : ss[i].k = "in"}}
DeclIdx(p, n) == IF \E i \in 1..NDecl(p) : InStmtsT[p][i].n = n THEN CHOOSE i \in 1..NDecl(p) : InStmtsT[p][i].n = n ELSE 0
ValFn(p, k, vv) ==
  [n \in InNames(StmtsOf(p, k)) |->
     IF DeclIdx(p, n) # 0 THEN vv[DeclIdx(p, n)]
     ELSE IF "pin2" \in DOMAIN Recs[p] /\ n \in DOMAIN Recs[p].pin2 THEN Recs[p].pin2[n] ELSE 0]
\* contents of read entities: entity name -> bundle
ContFn(p, vv) ==
  LET C == CInsT[p]
      names == {C[j].ent : j \in DOMAIN C}
  IN [n \in names |-> [t \in {C[j].item : j \in {j \in DOMAIN C : C[j].ent = n}} |->
                          vv[NDecl(p) + (CHOOSE j \in DOMAIN C : C[j].ent = n /\ C[j].item = t)]]]

(* ------------------------------ expectation ----------------------------- *)
FilesOf(p) == IF "files" \in DOMAIN Recs[p] THEN Recs[p].files ELSE <<>>
World(p, k, vv, mem) == RunF(StmtsOf(p, k), FilesOf(p), ValFn(p, k, vv), ContFn(p, vv), mem)

\* placed entity `ent` (interpreter record) in unit u: same prototype, centre = top-left tile + footprint / 2
EntAt(u, ent) == {e \in Ids(u) : Ents(u)[e].name = ent.proto
                                 /\ Ents(u)[e].position.x.f2 = 2 * ent.x + FootW(ent.proto)
                                 /\ Ents(u)[e].position.y.f2 = 2 * ent.y + FootH(ent.proto)}

\* the constant combinator that carries declared input n (labelled "(input)") and its signal
InSig(u, e) == LET F == FilterSeq(u, e) IN IF Len(F) >= 1 THEN Get(F[1], "name", NoSig) ELSE NoSig
\* environment override of unit k: every input combinator emits the chosen run-time value on its own signal,
\* every read entity emits its contents on both of its circuit connectors
InpOf(p, k, vv) ==
  LET u == UnitsOf(p)[k]
      vf == ValFn(p, k, vv)
      E == {e \in Ids(u) : Get(Desc(u, e), "role", "") = "input" /\ Get(Desc(u, e), "var", "") \in DOMAIN vf}
      base == [e \in E |-> Single(u, InSig(u, e), vf[Desc(u, e).var])]
  IN IF Len(CInsT[p]) = 0 THEN base
     ELSE LET cf == ContFn(p, vv)
              w0 == World(p, k, vv, <<>>)
              CE == {i \in DOMAIN w0.ents : w0.ents[i].n \in DOMAIN cf}
              entOf(i) == EntAt(u, w0.ents[i])
              bagOf(b) == [s \in SigsT[u] |-> IF s \in DOMAIN b THEN b[s] ELSE 0]
          IN base @@ [e \in UNION {entOf(i) : i \in CE} |-> bagOf(cf[w0.ents[CHOOSE i \in CE : e \in entOf(i)].n])]

\* names some later statement consumes
RECURSIVE RefsE(_)
RefsE(e) == CASE e.k = "ref" -> {e.n}
              [] e.k = "bin" -> RefsE(e.l) \cup RefsE(e.r)
              [] e.k \in {"un", "lit"} -> RefsE(e.e) \cup (IF e.k = "lit" /\ "of" \in DOMAIN e.t THEN {e.t.of} ELSE {})
              [] e.k = "proj" -> RefsE(e.e) \cup (IF "of" \in DOMAIN e.t THEN {e.t.of} ELSE {})
              [] e.k = "cond" -> RefsE(e.c) \cup RefsE(e.v)
              [] e.k = "blit" -> UNION {RefsE(e.es[i]) : i \in DOMAIN e.es}
              [] e.k \in {"sel", "any", "all"} -> RefsE(e.b)
              [] e.k = "call" -> UNION {RefsE(e.args[i]) : i \in DOMAIN e.args}
              [] e.k = "eout" -> {e.n}
              [] OTHER -> {}
RECURSIVE RefsS(_)
RefsS(s) == CASE s.k \in {"int", "let", "expr", "prop"} -> RefsE(s.e)
              [] s.k = "write" -> RefsE(s.e) \cup (IF s.mode = "plain" THEN {} ELSE RefsE(s.a)) \cup (IF s.mode \in {"set_reset", "reset_set"} THEN RefsE(s.b) ELSE {})
              [] s.k = "place" -> RefsE(s.x) \cup RefsE(s.y)
              [] s.k \in {"func", "for"} -> (UNION {RefsS(s.body[i]) : i \in DOMAIN s.body}) \cup (IF s.k = "func" /\ "k" \in DOMAIN s.ret THEN RefsE(s.ret) ELSE {})
              [] OTHER -> {}
Consumed(ss) == UNION {RefsS(ss[i]) : i \in DOMAIN ss}
\* named results to observe: top-level Signal/Bundle declarations nothing consumes
OutNames(ss) == {ss[i].n : i \in {i \in DOMAIN ss : ss[i].k = "let"}} \ Consumed(ss)
OutNamesT == [p \in PIDs |-> OutNames(Stmts(p))]
OutNames2T == [p \in PIDs |-> OutNames(StmtsOf(p, 2))]
\* twin builds are compared on the results both programs export (or the explicit list `cmp`)
CmpNamesT == [p \in PIDs |-> IF "cmp" \in DOMAIN Recs[p] THEN SeqSet(Recs[p].cmp)
                             ELSE IF HasTwin(p) THEN OutNamesT[p] \cap OutNames2T[p] ELSE {}]

(* ------------------------------ reporting ------------------------------ *)
\* a clause that fails on a record matching an open known finding (KnownFindings.tla) is reported as KNOWN, not FAIL
Fail(p, clause, info) ==
  IF ~Active(clause) THEN TRUE
  ELSE LET kf == KnownFindingR(Recs[p], clause) IN
       IF kf # "" THEN PrintT(<<"KNOWN", Recs[p].id, clause, kf>>)
       ELSE IF Strict THEN FALSE ELSE PrintT(<<"FAIL", Recs[p].id, clause, info>>)
Reserved == Wild \cup {"signal-W"}

\* where named result n can be read in unit u: its anchor, or - when the producer is itself a constant combinator - that combinator
\* an anchor is an EMPTY constant combinator labelled with the name (the wording of the label's remark is not relied on)
AnchorsOf(u, n) == {e \in Ids(u) : KindT[u][e] = "C" /\ Len(FilterSeq(u, e)) = 0 /\ Desc(u, e).var = n /\ Desc(u, e).role # "computing"}
ConstsOf(u, n) == {e \in Ids(u) : KindT[u][e] = "C" /\ Len(FilterSeq(u, e)) > 0 /\ Desc(u, e).var = n /\ Desc(u, e).role # "computing"}
\* observation point of n in unit u: <<entity, isConst>> or <<0, FALSE>> when n is not (uniquely) exposed
ObsPoint(u, n) == LET A == AnchorsOf(u, n)  K == ConstsOf(u, n) IN
                  IF Cardinality(A) = 1 THEN <<CHOOSE e \in A : TRUE, FALSE>>
                  ELSE IF A = {} /\ Cardinality(K) = 1 THEN <<CHOOSE e \in K : TRUE, TRUE>>
                  ELSE <<0, FALSE>>
ReadAt(u, pt, sig, o, inp) == IF sig \notin SigsT[u] THEN 0
                              ELSE IF pt[2] THEN StatVal(u, pt[1], inp)[sig] ELSE ObsSig(u, pt[1], sig, o, inp)
BagAt(u, pt, o, inp) == IF pt[2] THEN StatVal(u, pt[1], inp) ELSE ObsBag(u, pt[1], o, inp)

\* the clause a wrong scalar value is reported under (C01_value; C03_value / C05_value for memory records)
VClause(p) == IF "vclause" \in DOMAIN Recs[p] THEN Recs[p].vclause ELSE "C01_value"
CheckScalar(p, k, n, ev, pt, o, inp) ==
  LET u == UnitsOf(p)[k]
      lab == Desc(u, pt[1]).sig
      sig == IF ev.free THEN lab ELSE ev.t
      obs == ReadAt(u, pt, sig, o, inp)
  IN /\ (obs = ev.v \/ Fail(p, VClause(p), [unit |-> k, name |-> n, val |-> v_val, sig |-> sig, observed |-> obs, expected |-> ev.v]))
     /\ (ev.free \/ lab = ev.t \/ Fail(p, "C01_type", [unit |-> k, name |-> n, label |-> lab, expected |-> ev.t]))
     /\ (~ev.free \/ (lab \notin Reserved /\ lab # "") \/ Fail(p, "C13_reserved", [unit |-> k, name |-> n, label |-> lab]))

CheckBundle(p, k, n, ev, pt, o, inp) ==
  LET u == UnitsOf(p)[k]
      obs == BagAt(u, pt, o, inp)
      bad == {s \in SigsT[u] : obs[s] # BunGet(ev.b, s)} \cup {s \in BunNZ(ev.b) : s \notin SigsT[u]}
  IN bad = {} \/ Fail(p, "C02_bag", [unit |-> k, name |-> n, val |-> v_val, signals |-> bad,
                                      observed |-> [s \in bad \cap SigsT[u] |-> obs[s]], expected |-> [s \in bad |-> BunGet(ev.b, s)]])

CheckName(p, k, n, w, o, inp) ==
  LET ev == w.named[n]
      u == UnitsOf(p)[k]
      pt == ObsPoint(u, n)
  IN IF pt[1] = 0
     THEN Fail(p, "C20_exposed", [unit |-> k, name |-> n, anchors |-> Cardinality(AnchorsOf(u, n)), consts |-> Cardinality(ConstsOf(u, n))])
     ELSE IF ev.kind = "bun" THEN CheckBundle(p, k, n, ev, pt, o, inp)
     ELSE IF ev.kind = "sig" THEN CheckScalar(p, k, n, ev, pt, o, inp)
     ELSE TRUE

\* entity.enable = expr : the placed entity's circuit condition is true exactly when expr is positive
CheckEnable(p, k, en, w, o, inp) ==
  LET u == UnitsOf(p)[k]
      ent == w.ents[en.ent]
      E == EntAt(u, ent)
  IN IF Cardinality(E) # 1 THEN Fail(p, "C06_entity", [unit |-> k, entity |-> ent.n, found |-> Cardinality(E)])
     ELSE LET e == CHOOSE e \in E : TRUE IN
          IF NCondT[u][e] = <<>> \/ ~NCondT[u][e].on
          THEN Fail(p, "C06_condition", [unit |-> k, entity |-> ent.n, why |-> "no enabled circuit condition"])
          ELSE (Enabled(u, e, o, inp) = (en.v > 0))
               \/ Fail(p, "C06_enable", [unit |-> k, entity |-> ent.n, val |-> v_val, enabled |-> Enabled(u, e, o, inp), expr |-> en.v])

\* Refine2: both builds expose the same value for every compared name (each read on its own label when the type is free)
CheckTwin(p, n, w1, o1, inp1, o2, inp2) ==
  LET u1 == UnitsOf(p)[1]  u2 == UnitsOf(p)[2]
      p1 == ObsPoint(u1, n)  p2 == ObsPoint(u2, n)
      ev == w1.named[n]
  IN IF p1[1] = 0 /\ p2[1] = 0 THEN TRUE      \* exposed in neither build: C20's business (DESIGN 6.7)
     ELSE IF p1[1] = 0 \/ p2[1] = 0
     THEN Fail(p, "R2_exposed", [name |-> n, first |-> p1[1] # 0, second |-> p2[1] # 0])   \* an output only one build has
     ELSE IF ev.kind = "bun"
     THEN LET b1 == BagAt(u1, p1, o1, inp1)  b2 == BagAt(u2, p2, o2, inp2)
              S == SigsT[u1] \cup SigsT[u2]
              g(b, u, s) == IF s \in SigsT[u] THEN b[s] ELSE 0
              bad == {s \in S : g(b1, u1, s) # g(b2, u2, s)}
          IN bad = {} \/ Fail(p, "R2_equal", [name |-> n, val |-> v_val, signals |-> bad])
     ELSE LET s1 == IF ev.free THEN Desc(u1, p1[1]).sig ELSE ev.t
              s2 == IF ev.free THEN Desc(u2, p2[1]).sig ELSE ev.t
              x1 == ReadAt(u1, p1, s1, o1, inp1)  x2 == ReadAt(u2, p2, s2, o2, inp2)
          IN x1 = x2 \/ Fail(p, "R2_equal", [name |-> n, val |-> v_val, first |-> x1, second |-> x2])

(* C20, static part: labels.  The combinator producing a named result carries the variable's name and source line;  *)
(* every typed constant declaration appears as a constant combinator labelled with its name, value and line.          *)
TopIdx(ss, n) == CHOOSE i \in DOMAIN ss : ss[i].k \in {"let", "in"} /\ ss[i].n = n
CheckLabels(p, k) ==
  LET u == UnitsOf(p)[k]  ss == StmtsOf(p, k) IN
  /\ \A n \in OutNames(ss) :
        LET ln == LineOf(ss, TopIdx(ss, n))
            A == AnchorsOf(u, n)
            K == ConstsOf(u, n)
            \* the combinator(s) driving the anchor's network; a single arithmetic/decider feeder is "the producer";
            \* several feeders = a sum formed on the wire (no producing combinator); a constant feeder = an alias of an input
            a == IF Cardinality(A) = 1 THEN CHOOSE e \in A : TRUE ELSE 0
            F == IF a = 0 THEN {} ELSE FeedDynT[u][a][1] \cup FeedDynT[u][a][2]
            named(e) == Desc(u, e).var = n /\ Desc(u, e).line = ln
        IN IF a = 0 THEN (Cardinality(K) = 1 /\ A = {} /\ named(CHOOSE e \in K : TRUE))
                         \/ Fail(p, "C20_label", [unit |-> k, name |-> n, line |-> ln, why |-> "no unique anchor or labelled constant"])
           ELSE /\ (named(a) \/ Fail(p, "C20_label", [unit |-> k, name |-> n, line |-> ln, anchor |-> Desc(u, a).raw]))
                /\ (Cardinality(F) # 1 \/ named(CHOOSE e \in F : TRUE)
                     \/ Fail(p, "C20_label", [unit |-> k, name |-> n, line |-> ln, producer |-> Desc(u, CHOOSE e \in F : TRUE).raw]))
  /\ \A i \in {i \in DOMAIN ss : ss[i].k = "in" /\ ss[i].t # ""} :
        LET n == ss[i].n
            K == {e \in Ids(u) : KindT[u][e] = "C" /\ Desc(u, e).var = n /\ Desc(u, e).role = "input"}
        IN (\E e \in K : Desc(u, e).line = LineOf(ss, i) /\ Get(Desc(u, e), "value", 0) = ss[i].dv /\ Desc(u, e).sig = ss[i].t
                          /\ NCT[u][e] = Single(u, ss[i].t, ss[i].dv))
           \/ Fail(p, "C20_input", [unit |-> k, name |-> n, line |-> LineOf(ss, i), found |-> {<<Desc(u, e).raw>> : e \in K}])
ASSUME \A p \in PIDs : \A k \in DOMAIN UnitsOf(p) : (~Active("C20_label") /\ ~Active("C20_input")) \/ ~WiresOK(UnitsOf(p)[k]) \/ CheckLabels(p, k)

(* C09: user-placed entities appear once, where and how the program says.  Expected = the interpreter's list of executed   *)
(* place() statements (loops iterate, calls substitute); actual = every entity of the blueprint that is not compiler-made   *)
(* (combinators, poles).  Top-left tile (x, y) <=> centre = (x, y) + footprint / 2.                                        *)
UserEnts(u) == {e \in Ids(u) : KindT[u][e] = "E"}
\* a static property is exported either at the top level of the entity record or inside its control_behavior
PropIn(r, pr) == pr.k \in DOMAIN r /\ (IF pr.k = "direction" THEN r[pr.k] = pr.v.v ELSE r[pr.k] = (pr.v.v # 0))
IsDefault(pr) == pr.k \in DOMAIN PropDefaults /\ PropDefaults[pr.k] = (pr.v.v # 0)
Absent(ent, pr) == pr.k \notin DOMAIN ent /\ pr.k \notin DOMAIN Get(ent, "control_behavior", <<>>)
PropOK(ent, pr) == PropIn(ent, pr) \/ PropIn(Get(ent, "control_behavior", <<>>), pr) \/ (IsDefault(pr) /\ Absent(ent, pr))
CheckPlaces(p, k) ==
  LET u == UnitsOf(p)[k]
      w == World(p, k, [i \in 1..NIn(p) |-> IF i <= NDecl(p) THEN InStmtsT[p][i].dv ELSE 0], <<>>)
      X == w.ents
      same(i, j) == X[i].proto = X[j].proto /\ X[i].x = X[j].x /\ X[i].y = X[j].y
  IN /\ \A i \in DOMAIN X :
          LET E == EntAt(u, X[i]) IN
          /\ (Cardinality(E) = Cardinality({j \in DOMAIN X : same(i, j)})
               \/ Fail(p, "C09_bag", [unit |-> k, entity |-> X[i].n, proto |-> X[i].proto, x |-> X[i].x, y |-> X[i].y, found |-> Cardinality(E)]))
          /\ \A e \in E : \A j \in DOMAIN X[i].props :
                PropOK(Ents(u)[e], X[i].props[j]) \/ Fail(p, "C09_props", [unit |-> k, entity |-> X[i].n, prop |-> X[i].props[j].k])
     /\ \A e \in UserEnts(u) :
          (\E i \in DOMAIN X : e \in EntAt(u, X[i]))
          \/ Fail(p, "C09_extra", [unit |-> k, name |-> Ents(u)[e].name, x2 |-> Ents(u)[e].position.x.f2, y2 |-> Ents(u)[e].position.y.f2])
ASSUME \A p \in PIDs : \A k \in DOMAIN UnitsOf(p) : (~Active("C09_bag")) \/ ~WiresOK(UnitsOf(p)[k]) \/ CheckPlaces(p, k)

(* C13, static part: the signal the compiler chose for an untyped value is never reserved, a wildcard, or a signal the    *)
(* program names explicitly (ExplicitOf: computed from the AST).                                                          *)
CheckFresh(p, k) ==
  LET u == UnitsOf(p)[k]  ss == StmtsOf(p, k)  ex == ExplicitOf(ss) IN
  \A i \in {i \in DOMAIN ss : IsUntyped(ss[i]) /\ ss[i].k \in {"in", "let"}} :
     \A e \in {e \in Ids(u) : KindT[u][e] = "C" /\ Len(FilterSeq(u, e)) > 0 /\ Desc(u, e).var = ss[i].n /\ Desc(u, e).role \in {"input", "const"}} :
        (InSig(u, e) \notin ex \cup Reserved) \/ Fail(p, "C13_fresh", [unit |-> k, name |-> ss[i].n, chosen |-> InSig(u, e), explicit |-> ex])
ASSUME \A p \in PIDs : \A k \in DOMAIN UnitsOf(p) : ~Active("C13_fresh") \/ ~WiresOK(UnitsOf(p)[k]) \/ CheckFresh(p, k)

(* C08 / C18, static part: the blueprint can be pasted and is powered (Paste.tla).  A record names the requested pole type  *)
(* in `poles` ("" = no power-pole option).                                                                                 *)
PoleOpt(p, k) == IF "poles" \in DOMAIN Recs[p] THEN (IF k = 1 THEN Recs[p].poles ELSE (IF "poles2" \in DOMAIN Recs[p] THEN Recs[p].poles2 ELSE "")) ELSE ""
PoleProto(t) == CASE t = "small" -> "small-electric-pole" [] t = "medium" -> "medium-electric-pole" [] t = "big" -> "big-electric-pole"
                  [] t = "substation" -> "substation" [] OTHER -> ""
CheckPaste(p, k) ==
  LET u == UnitsOf(p)[k] IN
  /\ (UnknownProtos(u) = {} \/ Fail(p, "C08_proto", [unit |-> k, unknown |-> UnknownProtos(u)]))
  /\ (Overlaps(u) = {} \/ Fail(p, "C08_overlap", [unit |-> k, pairs |-> {<<EName(u, q[1]), Ents(u)[q[1]].position, EName(u, q[2]), Ents(u)[q[2]].position>> : q \in Overlaps(u)}]))
  /\ (BadEnds(u) = {} \/ Fail(p, "C08_wire_ends", [unit |-> k, wires |-> {WireList(u)[i] : i \in BadEnds(u)}]))
  /\ (BadColour(u) = {} \/ Fail(p, "C08_wire_colour", [unit |-> k, wires |-> {WireList(u)[i] : i \in BadColour(u)}]))
  /\ (TooLong(u) = {} \/ Fail(p, "C08_wire_reach", [unit |-> k, wires |-> {<<WireList(u)[i], EName(u, WireList(u)[i][1]), EName(u, WireList(u)[i][3]), Dist2(u, WireList(u)[i][1], WireList(u)[i][3])>> : i \in TooLong(u)}]))
CheckPower(p, k) ==
  LET u == UnitsOf(p)[k]  t == PoleProto(PoleOpt(p, k)) IN
  IF t = "" THEN (\A q \in Poles(u) : IsRelay(u, q)) \/ Fail(p, "C18_no_option", [unit |-> k, poles |-> {<<EName(u, q), Ents(u)[q].position>> : q \in {q \in Poles(u) : ~IsRelay(u, q)}}])
  ELSE LET UP == Unpowered(u, t)
           PQ == PolesOf(u, t)
           \* bounding box of all supply areas: a compiler-placed combinator that the (time-limited) layout put outside the area the
           \* pole grid was planned for is a different, recorded defect (KF-C18-grid-before-layout) than an unpowered entity inside it
           sup == IF PQ = {} THEN 0 ELSE PR(u, CHOOSE q \in PQ : TRUE).supply
           bb == IF PQ = {} THEN [x1 |-> 0, x2 |-> 0, y1 |-> 0, y2 |-> 0]
                 ELSE [x1 |-> Min({PX(u, q) : q \in PQ}) - sup, x2 |-> Max({PX(u, q) : q \in PQ}) + sup, y1 |-> Min({PY(u, q) : q \in PQ}) - sup, y2 |-> Max({PY(u, q) : q \in PQ}) + sup]
           outside == {e \in UP : KindT[u][e] \in {"A", "D"} /\ ~Overlap(TileBox(u, e), bb)}
           inside == UP \ outside
       IN
       /\ (inside = {} \/ Fail(p, "C18_powered", [unit |-> k, type |-> t, unpowered |-> {<<EName(u, e), Ents(u)[e].position>> : e \in inside}]))
       /\ (outside = {} \/ Fail(p, "C18_powered_outside", [unit |-> k, type |-> t, unpowered |-> {<<EName(u, e), Ents(u)[e].position>> : e \in outside}]))
       \* poles that could be wired but are not = a wiring fault (C18_one_grid); clusters placed out of each other's reach although one
       \* lattice pole between them would do = the recorded placement defect (C18_grid_gap); anything else is C18_one_grid again
       /\ (OneGrid(u) \/ Fail(p, IF BridgeableGap(u) THEN "C18_grid_gap" ELSE "C18_one_grid", [unit |-> k, type |-> t, poles |-> Cardinality(Poles(u)), placed_in_reach |-> ReachGrid(u)]))
       /\ ((\A q \in Poles(u) : EName(u, q) = t) \/ Fail(p, "C18_type", [unit |-> k, type |-> t, found |-> {EName(u, q) : q \in Poles(u)}]))
ASSUME \A p \in PIDs : \A k \in DOMAIN UnitsOf(p) : ~Active("C08_overlap") \/ CheckPaste(p, k)
ASSUME \A p \in PIDs : \A k \in DOMAIN UnitsOf(p) : ~Active("C18_powered") \/ ~WiresOK(UnitsOf(p)[k]) \/ CheckPower(p, k)

(* C12, static part: "no signal of one computation is ever visible to a combinator or entity of the other".  A record of an          *)
(* interleaved program says which program each top-level statement came from (`owner`); every entity of the blueprint that can be      *)
(* attributed (by the line in its label, or - for user entities - by the place statement at its tile) must share every circuit         *)
(* network only with entities of its own program.  Relay poles belong to nobody.                                                       *)
OwnerOfLine(p, ln) == LET ss == Stmts(p)  I == {i \in DOMAIN ss : LineOf(ss, i) = ln} IN IF I = {} THEN "" ELSE Recs[p].owner[CHOOSE i \in I : TRUE]
OwnerOfEntity(p, u, e) ==
  IF KindT[u][e] = "P" THEN ""
  ELSE IF KindT[u][e] = "E"
  THEN LET ss == Stmts(p)
           I == {i \in DOMAIN ss : ss[i].k = "place" /\ ss[i].x.k = "num" /\ ss[i].y.k = "num" /\ Ents(u)[e].name = ss[i].proto
                                   /\ Ents(u)[e].position.x.f2 = 2 * ss[i].x.v + FootW(ss[i].proto) /\ Ents(u)[e].position.y.f2 = 2 * ss[i].y.v + FootH(ss[i].proto)}
       IN IF I = {} THEN "" ELSE Recs[p].owner[CHOOSE i \in I : TRUE]
  ELSE OwnerOfLine(p, Desc(u, e).line)
CheckIsolated(p) ==
  LET u == U(p)
      A == AdjMap(u)
      pts == {<<e, c>> : e \in Ids(u), c \in 1..4}
      owners(C) == {OwnerOfEntity(p, u, q[1]) : q \in C} \ {""}
      bad == {C \in {Reach(A, {q}, {q}) : q \in pts} : Cardinality(owners(C)) > 1}
  IN bad = {} \/ Fail(p, "C12_isolated", [networks |-> {{<<Ents(u)[q[1]].name, Desc(u, q[1]).raw, q[2], OwnerOfEntity(p, u, q[1])>> : q \in {x \in C : OwnerOfEntity(p, u, x[1]) # ""}} : C \in bad}])
ASSUME \A p \in PIDs : ~Active("C12_isolated") \/ "owner" \notin DOMAIN Recs[p] \/ ~WiresOK(U(p)) \/ CheckIsolated(p)

(* C11_range: every constant placed in an accepted blueprint is a signed 32-bit value (the encoder reports the others) *)
ASSUME \A p \in PIDs : \A k \in DOMAIN UnitsOf(p) :
         LET o == Get(BPs[UnitsOf(p)[k]], "oor", <<>>) IN Len(o) = 0 \/ Fail(p, "C11_range", [unit |-> k, constants |-> o])

(* ------------------------------ behaviour ------------------------------ *)
MaxTick(p) == LET n == Len(Ents(U(p))) + (IF HasTwin(p) THEN Len(Ents(Recs[p].u2)) ELSE 0) IN n + 3
\* registers: k*1000+p.  0 settled states judged, 1 initial valuations, 2 valuations outside Defined,
\* 3 settled states where a circuit sits in an unknown corner, 4/5 non-triviality, 6 ambiguous (raced) states, 7 input changes
Reg(k, p) == k * 1000 + p
Bump(k, p) == TLCSet(Reg(k, p), TLCGet(Reg(k, p)) + 1)
ASSUME \A p \in PIDs : \A k \in 0..7 : TLCSet(Reg(k, p), 0)
Digest(w) == LET F[i \in 0..Len(w.order)] == IF i = 0 THEN 0 ELSE
                   LET x == w.named[w.order[i]] IN
                   Add32(Mul32(F[i-1], 31), IF x.kind = "bun" THEN FoldSet(LAMBDA t, acc : Add32(acc, x.b[t]), 0, DOMAIN x.b) ELSE x.v)
                 G[i \in 0..Len(w.enables)] == IF i = 0 THEN F[Len(w.order)] ELSE Add32(Mul32(G[i-1], 31), IF w.enables[i].v > 0 THEN 1 ELSE 0)
             IN G[Len(w.enables)]
Track(p, d) == IF TLCGet(Reg(5, p)) = 0 THEN TLCSet(Reg(4, p), d) /\ TLCSet(Reg(5, p), 1)
               ELSE IF TLCGet(Reg(5, p)) = 1 /\ TLCGet(Reg(4, p)) # d THEN TLCSet(Reg(5, p), 2) ELSE TRUE

(* abstract memory machine, stepped at settle granularity (DESIGN 3.3, 6.1)                              *)
(* v_mem : cell instance -> [v, on, amb]; amb = the last input change raced data against enable (or set *)
(* against reset): the hardware result depends on path latencies, so the cell is not judged in this      *)
(* state and is re-read from the circuit (through a direct reader) before the next step.                 *)
MemOf(am) == [i \in DOMAIN am |-> [v |-> am[i].v, on |-> am[i].on]]
RECURSIVE FixMem(_, _, _, _)
FixMem(p, vv, mem, fuel) ==
  LET w == World(p, 1, vv, mem)
      nxt == [i \in 1..w.ncell |-> IF i \in DOMAIN w.memN THEN w.memN[i] ELSE MemGet(mem, i)]
      same == \A i \in 1..w.ncell : MemGet(mem, i) = nxt[i]
  IN IF fuel = 0 \/ same THEN [mem |-> nxt, ok |-> same, info |-> w.info]
     ELSE FixMem(p, vv, nxt, fuel - 1)
\* did this change race? gated cell: enable dropped while the data changed; latch: both were active, neither is now
Raced(old, new, cell) ==
  IF cell \notin DOMAIN old \/ cell \notin DOMAIN new THEN FALSE
  ELSE IF new[cell].mode \in {"plain", "when"} THEN old[cell].c > 0 /\ new[cell].c <= 0 /\ old[cell].v # new[cell].v
  ELSE old[cell].sa /\ old[cell].ra /\ ~new[cell].sa /\ ~new[cell].ra
AbsStep(p, vvOld, vvNew, base) ==
  LET old == World(p, 1, vvOld, base).info
      fx == FixMem(p, vvNew, base, 4)
  IN [mem |-> [i \in DOMAIN fx.mem |-> [v |-> fx.mem[i].v, on |-> fx.mem[i].on, amb |-> Raced(old, fx.info, i)]], ok |-> fx.ok]
AbsInit(p, vv) ==
  LET fx == FixMem(p, vv, <<>>, 4)
  IN [mem |-> [i \in DOMAIN fx.mem |-> [v |-> fx.mem[i].v, on |-> fx.mem[i].on, amb |-> FALSE]], ok |-> fx.ok]
\* a direct reader of cell i: a top-level `Signal n = m.read();` nothing consumes  (used to re-read a raced cell)
MemNamesT == [p \in PIDs |-> SelectSeq(Stmts(p), LAMBDA s : s.k = "mem")]
DirectReader(p, cell) ==
  LET ss == Stmts(p)
      R == {i \in DOMAIN ss : ss[i].k = "let" /\ ss[i].e.k = "read" /\ ss[i].n \in OutNamesT[p]
                              /\ cell <= Len(MemNamesT[p]) /\ MemNamesT[p][cell].n = ss[i].e.m}
  IN IF R = {} THEN "" ELSE ss[CHOOSE i \in R : TRUE].n
Resync(p, am, o, inp) ==
  [i \in DOMAIN am |->
     IF ~am[i].amb THEN am[i]
     ELSE LET n == DirectReader(p, i)
              pt == IF n = "" THEN <<0, FALSE>> ELSE ObsPoint(U(p), n)
          IN IF pt[1] = 0 THEN am[i]
             ELSE LET x == ReadAt(U(p), pt, Desc(U(p), pt[1]).sig, o, inp) IN [v |-> x, on |-> (x # 0), amb |-> FALSE]]
\* a raced latch whose value expression currently evaluates to 0 cannot be re-read (on and off both read 0): that path ends
CanResync(p, am) ==
  LET info == World(p, 1, v_val, MemOf(am)).info IN
  \A i \in DOMAIN am : ~am[i].amb \/ (/\ DirectReader(p, i) # "" /\ ObsPoint(U(p), DirectReader(p, i))[1] # 0
                                        /\ (i \notin DOMAIN info \/ info[i].mode \in {"plain", "when"} \/ info[i].v # 0))

\* all valuations: one initial state per (record, valuation)
RECURSIVE Prod(_, _)
Prod(p, i) == IF i > NIn(p) THEN {<<>>} ELSE {<<x>> \o r : x \in DomT[p][i], r \in Prod(p, i + 1)}
InitOuts(p) == [k \in DOMAIN UnitsOf(p) |-> InitOut(UnitsOf(p)[k])]
\* a blueprint with a wire to a missing entity / connector cannot be executed (C08_wire_ends reports it)
RunnableT == {p \in PIDs : \A k \in DOMAIN UnitsOf(p) : WiresOK(UnitsOf(p)[k])}
Init == /\ v_pid \in RunnableT
        /\ v_val \in Prod(v_pid, 1)
        /\ v_out = InitOuts(v_pid)
        /\ v_tick = 0 /\ v_settled = FALSE
        /\ LET a == AbsInit(v_pid, v_val) IN v_mem = a.mem /\ v_lost = ~a.ok
Tick == /\ ~v_settled /\ v_tick < MaxTick(v_pid)
        /\ v_out' = [k \in DOMAIN v_out |-> Step(UnitsOf(v_pid)[k], v_out[k], InpOf(v_pid, k, v_val))]
        /\ v_settled' = (v_out' = v_out)
        /\ v_tick' = v_tick + 1
        /\ UNCHANGED <<v_pid, v_val, v_mem, v_lost>>
ChangeInput ==
  /\ v_settled /\ ~v_lost /\ Mode(v_pid) = "hist"
  /\ CanResync(v_pid, v_mem)
  /\ \E i \in 1..NIn(v_pid) : \E x \in DomT[v_pid][i] \ {v_val[i]} :
       LET nv == [v_val EXCEPT ![i] = x]
           base == MemOf(Resync(v_pid, v_mem, v_out[1], InpOf(v_pid, 1, v_val)))
           a == AbsStep(v_pid, v_val, nv, base)
       IN /\ v_val' = nv
          /\ v_mem' = a.mem
          /\ v_lost' = ~a.ok
  /\ v_tick' = 0 /\ v_settled' = FALSE
  /\ UNCHANGED <<v_pid, v_out>>
Next == Tick \/ ChangeInput
Spec == Init /\ [][Next]_vars

(* ------------------------------ monitors ------------------------------- *)
\* every input the program uses must be drivable: exactly one constant combinator labelled as that input.
\* A record where this fails is NOT judged (DESIGN 6.7: unobservable; C20_input reports it).
Drivable(p, k) == LET u == UnitsOf(p)[k]  ss == StmtsOf(p, k) IN
   \A n \in InNames(ss) \cap Consumed(ss) : Cardinality({e \in Ids(u) : Desc(u, e).role = "input" /\ Desc(u, e).var = n}) = 1
NotJudgedT == [p \in PIDs |-> UNION {UnsupT[UnitsOf(p)[k]] \cup (IF WiresOK(UnitsOf(p)[k]) /\ Drivable(p, k) THEN {} ELSE {"input-not-found"}) : k \in DOMAIN UnitsOf(p)}]
Supported(p) == NotJudgedT[p] = {} /\ \A k \in DOMAIN UnitsOf(p) : WiresOK(UnitsOf(p)[k])
CountInit == (v_tick = 0 /\ ~v_settled) => Bump(1, v_pid)
AnyAmb == \E i \in DOMAIN v_mem : v_mem[i].amb
JudgeUnit(p, k, w) ==
  LET o == v_out[k]  inp == InpOf(p, k, v_val) IN
  /\ \A n \in OutNames(StmtsOf(p, k)) : CheckName(p, k, n, w, o, inp)
  /\ \A j \in DOMAIN w.enables : CheckEnable(p, k, w.enables[j], w, o, inp)
Judge ==
  (v_settled /\ Supported(v_pid) /\ ~v_lost) =>
     LET p == v_pid
         w == World(p, 1, v_val, MemOf(v_mem))
     IN IF w.undef THEN Bump(2, p)
        ELSE IF \E k \in DOMAIN v_out : AnyUndef(UnitsOf(p)[k], v_out[k], InpOf(p, k, v_val)) THEN Bump(3, p)
        ELSE IF AnyAmb THEN Bump(6, p)
        ELSE /\ Bump(0, p)
             /\ Track(p, Digest(w))
             /\ (("r1" \in DOMAIN Recs[p] /\ ~Recs[p].r1) \/ JudgeUnit(p, 1, w))
             /\ (~HasTwin(p) \/
                   /\ ("r1both" \notin DOMAIN Recs[p] \/ JudgeUnit(p, 2, World(p, 2, v_val, MemOf(v_mem))))
                   /\ \A n \in CmpNamesT[p] : CheckTwin(p, n, w, v_out[1], InpOf(p, 1, v_val), v_out[2], InpOf(p, 2, v_val)))
Settles == (v_tick = MaxTick(v_pid) /\ ~v_settled) => (Bump(7, v_pid) /\ Fail(v_pid, "C01_settles", [val |-> v_val, ticks |-> v_tick]))

Summary == \A p \in PIDs : PrintT(<<"SUMMARY", Recs[p].id, TLCGet(Reg(1, p)), TLCGet(Reg(0, p)), TLCGet(Reg(2, p)), TLCGet(Reg(3, p)),
                                    Cardinality(OutNamesT[p]), NotJudgedT[p],
                                    TLCGet(Reg(5, p)), TLCGet(Reg(6, p)), TLCGet(Reg(7, p))>>)
=============================================================================
