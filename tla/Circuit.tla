------------------------------ MODULE Circuit ------------------------------
(***************************************************************************)
(* L1: the Factorio 2.0 circuit-network machine, interpreting blueprints   *)
(* EXACTLY as the compiler emitted them (raw JSON shape, JSON defaults     *)
(* handled here, not by the encoder).                                      *)
(*                                                                         *)
(* Data.tla (generated per batch) defines                                  *)
(*   BPs  == << [entities |-> <<...>>, wires |-> << <<e1,c1,e2,c2>>,...>>, *)
(*              extra |-> <<signal names of environment emitters>>], ...>> *)
(* Every table below is indexed by the blueprint ("unit") index u and is a *)
(* constant-level definition, so TLC evaluates it once.                    *)
(*                                                                         *)
(* Connector ids (Factorio 2.0 wire format [e1, c1, e2, c2]):              *)
(*   1 red / 2 green  circuit connector (combinator INPUT side)            *)
(*   3 red / 4 green  combinator OUTPUT side                               *)
(*   5 / 6            copper (power) connectors                            *)
(* A network is a connected component of the wire graph over              *)
(* <<entity, connector>> points; red and green never mix because a wire    *)
(* joining 1/3 with 2/4 is rejected by Paste (C08), and is treated here    *)
(* exactly as the game would: as an edge.                                  *)
(*                                                                         *)
(* Dynamic emitters (arithmetic, decider) have one tick of latency; their  *)
(* output bags are the state `o`.  Static emitters (constant combinators,  *)
(* environment entities such as chests) show their value at once; values   *)
(* of environment-controlled ones come from `inp` (entity id -> bag).      *)
(***************************************************************************)
EXTENDS Data, Int32, Sequences, FiniteSets, FiniteSetsExt, TLC

Units == 1..Len(BPs)
Has(r, k) == k \in DOMAIN r
Get(r, k, d) == IF Has(r, k) THEN r[k] ELSE d
\* Factorio's defaults of the boolean entity properties the corpus sets: a property whose value IS the default may be left out of an export
PropDefaults == [send_to_train |-> TRUE, read_from_train |-> FALSE, select_max |-> TRUE, always_on |-> FALSE, use_colors |-> FALSE]
SeqSet(s) == {s[i] : i \in DOMAIN s}
Wild == {"signal-each", "signal-anything", "signal-everything"}
NoSig == "<none>"
SigName(r, k) == IF Has(r, k) THEN r[k].name ELSE NoSig

Ents(u) == BPs[u].entities
Ids(u) == 1..Len(Ents(u))
PoleNames == {"small-electric-pole", "medium-electric-pole", "big-electric-pole", "substation"}
KindOf(nm) == CASE nm = "arithmetic-combinator" -> "A" [] nm = "decider-combinator" -> "D"
                [] nm = "constant-combinator" -> "C" [] nm \in PoleNames -> "P" [] OTHER -> "E"
KindT == [u \in Units |-> [e \in Ids(u) |-> KindOf(Ents(u)[e].name)]]

CB(u, e) == Get(Ents(u)[e], "control_behavior", <<>>)
AC(u, e) == Get(CB(u, e), "arithmetic_conditions", <<>>)
DC(u, e) == Get(CB(u, e), "decider_conditions", <<>>)
Conds(u, e) == Get(DC(u, e), "conditions", <<>>)
Outs(u, e) == Get(DC(u, e), "outputs", <<>>)
Sections(u, e) == Get(Get(CB(u, e), "sections", <<>>), "sections", <<>>)
\* filters as a sequence (a constant combinator may list one signal twice: values add)
FilterSeq(u, e) == LET S == Sections(u, e)
                       F[i \in 0..Len(S)] == IF i = 0 THEN <<>>
                                             ELSE F[i-1] \o (IF Get(S[i], "active", TRUE) THEN Get(S[i], "filters", <<>>) ELSE <<>>)
                   IN F[Len(S)]
CC(u, e) == Get(CB(u, e), "circuit_condition", <<>>)

SigsOf(u, e) ==
   {SigName(AC(u, e), "first_signal"), SigName(AC(u, e), "second_signal"), SigName(AC(u, e), "output_signal"),
    SigName(CC(u, e), "first_signal"), SigName(CC(u, e), "second_signal")}
   \cup UNION {{SigName(Conds(u, e)[i], "first_signal"), SigName(Conds(u, e)[i], "second_signal")} : i \in DOMAIN Conds(u, e)}
   \cup {SigName(Outs(u, e)[i], "signal") : i \in DOMAIN Outs(u, e)}
   \cup {Get(FilterSeq(u, e)[i], "name", NoSig) : i \in DOMAIN FilterSeq(u, e)}
SigsT == [u \in Units |-> ((UNION {SigsOf(u, e) : e \in Ids(u)}) \cup SeqSet(Get(BPs[u], "extra", <<>>))) \ (Wild \cup {NoSig})]
ZeroBagT == [u \in Units |-> [s \in SigsT[u] |-> 0]]
Single(u, s, v) == IF s \in SigsT[u] THEN [ZeroBagT[u] EXCEPT ![s] = v] ELSE ZeroBagT[u]
BagAdd(u, a, b) == [s \in SigsT[u] |-> Add32(a[s], b[s])]

(* ---------------------------- networks -------------------------------- *)
WireSet(u) == SeqSet(BPs[u].wires)
AdjMap(u) == LET WS == WireSet(u) IN
   [q \in Ids(u) \X (1..6) |-> {<<w[3], w[4]>> : w \in {w \in WS : w[1] = q[1] /\ w[2] = q[2]}}
                             \cup {<<w[1], w[2]>> : w \in {w \in WS : w[3] = q[1] /\ w[4] = q[2]}}]
RECURSIVE Reach(_, _, _)
Reach(A, front, seen) == IF front = {} THEN seen
                         ELSE LET nx == (UNION {A[q] : q \in front}) \ seen IN Reach(A, nx, seen \cup nx)
\* points of the network that contains point q (only well-formed points: existing entity, connector 1..6)
NetPts(u, q) == Reach(AdjMap(u), {q}, {q})
\* where an emitter puts its signals
EmitPts(u, e) == IF KindT[u][e] \in {"A", "D"} THEN {<<e, 3>>, <<e, 4>>} ELSE {<<e, 1>>, <<e, 2>>}
DynT  == [u \in Units |-> {e \in Ids(u) : KindT[u][e] \in {"A", "D"}}]
StatT == [u \in Units |-> {e \in Ids(u) : KindT[u][e] \in {"C", "E"}}]
\* wires that mention a missing entity or connector are ignored here; Paste (C08) reports them
WiresOK(u) == \A w \in WireSet(u) : w[1] \in Ids(u) /\ w[3] \in Ids(u) /\ w[2] \in 1..6 /\ w[4] \in 1..6
\* feeders of the network attached to input connector c (1 red, 2 green) of entity e
NetT == [u \in Units |-> IF ~WiresOK(u) THEN <<>> ELSE
          LET A == AdjMap(u) IN [e \in Ids(u) |-> [c \in 1..2 |-> Reach(A, {<<e, c>>}, {<<e, c>>})]]]
FeedDynT  == [u \in Units |-> IF ~WiresOK(u) THEN <<>> ELSE
          [e \in Ids(u) |-> [c \in 1..2 |-> {f \in DynT[u] : EmitPts(u, f) \cap NetT[u][e][c] # {}}]]]
\* a static emitter sits on its own connector: it feeds network (e,c) through point <<f,c>> only
FeedStatT == [u \in Units |-> IF ~WiresOK(u) THEN <<>> ELSE
          [e \in Ids(u) |-> [c \in 1..2 |-> {f \in StatT[u] : <<f, c>> \in NetT[u][e][c]}]]]
\* how many times emitter f is attached to network (e,c): always 1 (a network is a set);
\* used by C06_once through FeedMult below
FeedMult(u, e, c, f) == IF f \in FeedStatT[u][e][c] \/ f \in FeedDynT[u][e][c] THEN 1 ELSE 0

(* ------------------------- normalisation ------------------------------ *)
SelOf(r, k) == LET sel == Get(r, k, <<>>) IN <<Get(sel, "red", TRUE), Get(sel, "green", TRUE)>>
NAT == [u \in Units |-> [e \in Ids(u) |-> IF KindT[u][e] # "A" THEN <<>> ELSE LET c == AC(u, e) IN
        [fs |-> SigName(c, "first_signal"), ss |-> SigName(c, "second_signal"), os |-> SigName(c, "output_signal"),
         k1 |-> Get(c, "first_constant", 0), k2 |-> Get(c, "second_constant", 0), op |-> Get(c, "operation", "*"),
         n1 |-> SelOf(c, "first_signal_networks"), n2 |-> SelOf(c, "second_signal_networks")]]]
NRow(row) == [fs |-> SigName(row, "first_signal"), ss |-> SigName(row, "second_signal"), k |-> Get(row, "constant", 0),
              cmp |-> Get(row, "comparator", "<"), n1 |-> SelOf(row, "first_signal_networks"),
              n2 |-> SelOf(row, "second_signal_networks"), ct |-> Get(row, "compare_type", "or")]
NOut(out) == [os |-> SigName(out, "signal"), copy |-> Get(out, "copy_count_from_input", TRUE),
              k |-> Get(out, "constant", 1), n |-> SelOf(out, "networks")]
NDT == [u \in Units |-> [e \in Ids(u) |-> IF KindT[u][e] # "D" THEN <<>> ELSE
        [rows |-> [i \in DOMAIN Conds(u, e) |-> NRow(Conds(u, e)[i])],
         outs |-> [i \in DOMAIN Outs(u, e) |-> NOut(Outs(u, e)[i])]]]]
\* constant combinator contents (is_on defaults to TRUE)
NCT == [u \in Units |-> [e \in Ids(u) |-> IF KindT[u][e] # "C" \/ ~Get(CB(u, e), "is_on", TRUE) THEN ZeroBagT[u]
        ELSE LET F == FilterSeq(u, e)
                 G[i \in 0..Len(F)] == IF i = 0 THEN ZeroBagT[u]
                     ELSE BagAdd(u, G[i-1], Single(u, Get(F[i], "name", NoSig), Get(F[i], "count", 0)))
             IN G[Len(F)]]]
\* circuit condition of an entity (lamp, inserter, belt, ...): [] when absent
NCondT == [u \in Units |-> [e \in Ids(u) |-> IF KindT[u][e] # "E" \/ ~Has(CB(u, e), "circuit_condition") THEN <<>>
           ELSE LET c == CC(u, e) IN
             [fs |-> SigName(c, "first_signal"), ss |-> SigName(c, "second_signal"), k |-> Get(c, "constant", 0),
              cmp |-> Get(c, "comparator", "<"), on |-> Get(CB(u, e), "circuit_enabled", FALSE)]]]

(* features of the JSON this model does not interpret; a blueprint that   *)
(* uses one is reported as "unsupported" and never judged                  *)
UnsupE(u, e) ==
   (IF KindT[u][e] = "D" THEN
       {"anything-output" : i \in {i \in DOMAIN NDT[u][e].outs : NDT[u][e].outs[i].os = "signal-anything"}}
       \cup {"each-in-multirow" : i \in {i \in DOMAIN NDT[u][e].rows : NDT[u][e].rows[i].fs = "signal-each" /\ Len(NDT[u][e].rows) > 1}}
       \cup {"wild-second" : i \in {i \in DOMAIN NDT[u][e].rows : NDT[u][e].rows[i].ss \in {"signal-anything", "signal-everything"}}}
    ELSE {})
   \cup (IF KindT[u][e] = "A" /\ (NAT[u][e].fs \in {"signal-anything", "signal-everything"} \/ NAT[u][e].ss \in {"signal-anything", "signal-everything"}
                                  \/ NAT[u][e].os \in {"signal-anything", "signal-everything"}) THEN {"wild-arith"} ELSE {})
   \cup (IF Ents(u)[e].name \in {"selector-combinator"} THEN {"selector"} ELSE {})
UnsupT == [u \in Units |-> UNION {UnsupE(u, e) : e \in Ids(u)}]

(* ------------------------------ reads ---------------------------------- *)
\* value of a static emitter: overridden by the environment, else its own constants
StatVal(u, f, inp) == IF f \in DOMAIN inp THEN inp[f] ELSE NCT[u][f]
SigOn(u, e, c, s, o, inp) ==
   LET d == FoldSet(LAMBDA f, acc : Add32(o[f][s], acc), 0, FeedDynT[u][e][c])
   IN FoldSet(LAMBDA f, acc : Add32(StatVal(u, f, inp)[s], acc), d, FeedStatT[u][e][c])
\* n = <<read red?, read green?>>
Rd(u, e, n, s, o, inp) ==
   IF n[1] THEN (IF n[2] THEN Add32(SigOn(u, e, 1, s, o, inp), SigOn(u, e, 2, s, o, inp)) ELSE SigOn(u, e, 1, s, o, inp))
   ELSE IF n[2] THEN SigOn(u, e, 2, s, o, inp) ELSE 0
Both == <<TRUE, TRUE>>

Cmp(op, a, b) == CASE op = ">" -> a > b [] op = "<" -> a < b [] op = "=" -> a = b
   [] op \in {">=", "≥"} -> a >= b [] op \in {"<=", "≤"} -> a <= b [] op \in {"!=", "≠"} -> a # b

SumBag(u, b) == FoldSet(LAMBDA s, acc : Add32(b[s], acc), 0, SigsT[u])

ArithOut(u, e, o, inp) ==
  LET c == NAT[u][e]
      V1(s) == IF c.fs = "signal-each" THEN Rd(u, e, c.n1, s, o, inp) ELSE IF c.fs # NoSig THEN Rd(u, e, c.n1, c.fs, o, inp) ELSE c.k1
      V2(s) == IF c.ss = "signal-each" THEN Rd(u, e, c.n2, s, o, inp) ELSE IF c.ss # NoSig THEN Rd(u, e, c.n2, c.ss, o, inp) ELSE c.k2
      SafeOp(a, b) == IF OpDefined(c.op, a, b) THEN Op32(c.op, a, b) ELSE 0
  IN IF c.fs = "signal-each" \/ c.ss = "signal-each"
     THEN LET n == IF c.fs = "signal-each" THEN c.n1 ELSE c.n2
              res == [s \in SigsT[u] |-> IF Rd(u, e, n, s, o, inp) # 0 THEN SafeOp(V1(s), V2(s)) ELSE 0]
          IN IF c.os = "signal-each" THEN res ELSE IF c.os = NoSig THEN ZeroBagT[u] ELSE Single(u, c.os, SumBag(u, res))
     ELSE IF c.os = NoSig THEN ZeroBagT[u] ELSE Single(u, c.os, SafeOp(V1(NoSig), V2(NoSig)))

\* does some operation of this combinator hit an undefined corner in this state?
ArithUndef(u, e, o, inp) ==
  LET c == NAT[u][e]
      V1(s) == IF c.fs = "signal-each" THEN Rd(u, e, c.n1, s, o, inp) ELSE IF c.fs # NoSig THEN Rd(u, e, c.n1, c.fs, o, inp) ELSE c.k1
      V2(s) == IF c.ss = "signal-each" THEN Rd(u, e, c.n2, s, o, inp) ELSE IF c.ss # NoSig THEN Rd(u, e, c.n2, c.ss, o, inp) ELSE c.k2
  IN IF c.fs = "signal-each" \/ c.ss = "signal-each"
     THEN LET n == IF c.fs = "signal-each" THEN c.n1 ELSE c.n2
          IN \E s \in SigsT[u] : Rd(u, e, n, s, o, inp) # 0 /\ ~OpDefined(c.op, V1(s), V2(s))
     ELSE ~OpDefined(c.op, V1(NoSig), V2(NoSig))

\* one condition row, for "current each-signal" s (NoSig when the row has no each)
RowTrueG(u, e, row, s, o, inp) ==
  LET rhs(t) == IF row.ss = "signal-each" THEN Rd(u, e, row.n2, t, o, inp)
                ELSE IF row.ss # NoSig THEN Rd(u, e, row.n2, row.ss, o, inp) ELSE row.k
  IN CASE row.fs = "signal-everything" -> \A t \in SigsT[u] : LET v == Rd(u, e, row.n1, t, o, inp) IN v = 0 \/ Cmp(row.cmp, v, rhs(t))
       [] row.fs = "signal-anything" -> \E t \in SigsT[u] : LET v == Rd(u, e, row.n1, t, o, inp) IN v # 0 /\ Cmp(row.cmp, v, rhs(t))
       [] row.fs = "signal-each" -> Cmp(row.cmp, Rd(u, e, row.n1, s, o, inp), rhs(s))
       [] row.fs = NoSig -> Cmp(row.cmp, 0, rhs(s))
       [] OTHER -> Cmp(row.cmp, Rd(u, e, row.n1, row.fs, o, inp), rhs(s))

\* Factorio 2.0: AND binds tighter than OR; the first row's connective is ignored
RECURSIVE DNF(_, _, _, _, _, _, _)
DNF(u, e, i, s, o, inp, acc) ==
  LET rows == NDT[u][e].rows IN
  IF i > Len(rows) THEN acc
  ELSE IF i > 1 /\ rows[i].ct = "or" THEN acc \/ DNF(u, e, i + 1, s, o, inp, RowTrueG(u, e, rows[i], s, o, inp))
  ELSE DNF(u, e, i + 1, s, o, inp, acc /\ RowTrueG(u, e, rows[i], s, o, inp))
CondTrue(u, e, s, o, inp) == IF Len(NDT[u][e].rows) = 0 THEN FALSE ELSE DNF(u, e, 1, s, o, inp, TRUE)

EachRowT == [u \in Units |-> [e \in Ids(u) |-> IF KindT[u][e] # "D" THEN 0 ELSE
              LET S == {i \in DOMAIN NDT[u][e].rows : NDT[u][e].rows[i].fs = "signal-each"}
              IN IF S = {} THEN 0 ELSE CHOOSE i \in S : TRUE]]

\* pass = set of signals that passed an each-condition (all signals when there is no each row)
OneOut(u, e, out, o, inp, pass, isEach) ==
  CASE out.os = "signal-everything" ->
         [s \in SigsT[u] |-> LET v == Rd(u, e, out.n, s, o, inp) IN IF v # 0 THEN (IF out.copy THEN v ELSE out.k) ELSE 0]
    [] out.os = "signal-each" ->
         [s \in SigsT[u] |-> IF s \in pass THEN (IF out.copy THEN Rd(u, e, out.n, s, o, inp) ELSE out.k) ELSE 0]
    [] out.os = NoSig -> ZeroBagT[u]
    [] OTHER -> IF isEach
                THEN Single(u, out.os, FoldSet(LAMBDA s, acc : Add32(IF out.copy THEN Rd(u, e, out.n, s, o, inp) ELSE out.k, acc), 0, pass))
                ELSE Single(u, out.os, IF out.copy THEN Rd(u, e, out.n, out.os, o, inp) ELSE out.k)
SumOuts(u, e, o, inp, pass, isEach) ==
  LET outs == NDT[u][e].outs
  IN IF Len(outs) = 1 THEN OneOut(u, e, outs[1], o, inp, pass, isEach)
     ELSE FoldSet(LAMBDA i, acc : BagAdd(u, OneOut(u, e, outs[i], o, inp, pass, isEach), acc), ZeroBagT[u], DOMAIN outs)
DeciderOut(u, e, o, inp) ==
  IF EachRowT[u][e] # 0
  THEN LET n == NDT[u][e].rows[EachRowT[u][e]].n1
           pass == {s \in SigsT[u] : Rd(u, e, n, s, o, inp) # 0 /\ CondTrue(u, e, s, o, inp)}
       IN IF pass = {} THEN ZeroBagT[u] ELSE SumOuts(u, e, o, inp, pass, TRUE)
  ELSE IF CondTrue(u, e, NoSig, o, inp) THEN SumOuts(u, e, o, inp, SigsT[u], FALSE) ELSE ZeroBagT[u]

Compute(u, e, o, inp) == IF KindT[u][e] = "A" THEN ArithOut(u, e, o, inp) ELSE DeciderOut(u, e, o, inp)

(* ----------------------------- the machine ----------------------------- *)
\* all combinator outputs start empty; static emitters show their value at once
InitOut(u) == [e \in DynT[u] |-> ZeroBagT[u]]
Step(u, o, inp) == [e \in DynT[u] |-> Compute(u, e, o, inp)]
\* some combinator is being driven into a corner the model does not know
AnyUndef(u, o, inp) == \E e \in DynT[u] : KindT[u][e] = "A" /\ ArithUndef(u, e, o, inp)

\* what an observer (or a circuit-controlled entity) attached at (e, 1/2) sees
ObsSig(u, e, s, o, inp) == Rd(u, e, Both, s, o, inp)
ObsBag(u, e, o, inp) == [s \in SigsT[u] |-> ObsSig(u, e, s, o, inp)]

\* circuit condition of a controlled entity, evaluated on the sum of both connector networks
Enabled(u, e, o, inp) ==
  LET c == NCondT[u][e]
      rhs == IF c.ss # NoSig THEN ObsSig(u, e, c.ss, o, inp) ELSE c.k
  IN CASE c.fs = "signal-everything" -> \A t \in SigsT[u] : LET v == ObsSig(u, e, t, o, inp) IN v = 0 \/ Cmp(c.cmp, v, rhs)
       [] c.fs = "signal-anything" -> \E t \in SigsT[u] : LET v == ObsSig(u, e, t, o, inp) IN v # 0 /\ Cmp(c.cmp, v, rhs)
       [] c.fs = NoSig -> Cmp(c.cmp, 0, rhs)
       [] OTHER -> Cmp(c.cmp, ObsSig(u, e, c.fs, o, inp), rhs)

(* --------------------- lookup by description / tile --------------------- *)
Desc(u, e) == Get(Ents(u)[e], "desc", <<>>)
ByRole(u, role, var) == {e \in Ids(u) : Get(Desc(u, e), "role", "") = role /\ Get(Desc(u, e), "var", "") = var}
\* entity whose centre is at doubled coordinates (x2, y2)
AtPos2(u, x2, y2) == {e \in Ids(u) : Ents(u)[e].position.x.f2 = x2 /\ Ents(u)[e].position.y.f2 = y2}
=============================================================================
