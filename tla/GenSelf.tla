------------------------------ MODULE GenSelf ------------------------------
(***************************************************************************)
(* Generator specification for C04: m.write(f(m.read())) with f a chain of *)
(* 1..4 steps over the cell, constants and held inputs (counter, modulo    *)
(* clock, accumulator, LFSR mix, conditional reset), 1-2 readers.  Chains  *)
(* ending in arithmetic are folded into arithmetic feedback by the         *)
(* compiler, chains ending in a conditional keep the two-gate cell.        *)
(***************************************************************************)
EXTENDS Facto, FiniteSetsExt, SequencesExt, Json, IOUtils

M == ReadE("m")
A == Ref("a")
TM == "signal-M"
InA == SIn("a", "signal-A", 3)
P(grp, f, extra, ins) ==
  LET stmts == ins \o <<SMem("m", TM), SWrite("m", f, "plain", Num(0), Num(0)), SLet("Signal", "o", M)>> \o extra
  IN [grp |-> grp, stmts |-> stmts, src |-> Render(stmts), dom |-> <<-3, 0, 1, 2, 7>>]
Fs1 == {Bin("+", M, Num(1)), Bin("-", M, Num(1)), Bin("+", M, Num(7)), Bin("*", Bin("+", M, Num(1)), Num(2)),
        Bin("%", Bin("+", M, Num(1)), Num(10)), Bin("AND", Bin("+", Bin("*", M, Num(5)), Num(3)), Num(255)),
        Bin("%", Bin("+", Bin("*", M, Num(3)), Num(1)), Num(7)), Bin("XOR", Bin("<<", M, Num(1)), Num(5)),
        Bin("+", Bin("+", Bin("+", M, Num(1)), Num(2)), Num(3)), Bin("-", Num(100), M), Bin("/", Bin("+", M, Num(100)), Num(2))}
FsA == {Bin("+", M, A), Bin("+", Bin("*", M, Num(2)), A), Bin("%", Bin("+", M, A), Num(16)), Bin("+", M, Proj(A, TName(TM))),
        Bin("+", M, Bin("*", A, Num(2))), Bin("*", Bin("+", M, Num(1)), A), Bin("+", Bin("+", M, A), A), Bin("XOR", M, A)}
FsC == {CondE(Bin("<", M, Num(10)), Bin("+", M, Num(1))), CondE(Bin("!=", M, Num(5)), Bin("+", M, Num(1))),
        Bin("+", CondE(Bin("<", M, Num(5)), Bin("+", M, Num(1))), CondE(Bin(">=", M, Num(5)), Num(0))),
        Bin("<", M, Num(1)), Bin("==", M, Num(0))}
\* readers of the cell that come BEFORE the write statement (the order of statements must not matter to the loop)
PE(grp, f, early, ins) ==
  LET stmts == ins \o <<SMem("m", TM)>> \o early \o <<SWrite("m", f, "plain", Num(0), Num(0)), SLet("Signal", "o", M)>>
  IN [grp |-> grp, stmts |-> stmts, src |-> Render(stmts), dom |-> <<-3, 0, 1, 2, 7>>]
EarlyR == {<<SLet("Signal", "d", Bin("*", M, Num(2)))>>, <<SLet("Signal", "d", Bin("+", M, Num(5))), SLet("Signal", "g", Bin(">", M, Num(3)))>>, <<SLet("Signal", "d", M)>>}
Early == {PE("early", f, er, <<>>) : f \in {Bin("+", M, Num(1)), Bin("-", Num(10), M), Bin("%", Bin("+", M, Num(1)), Num(10)), Bin("*", Bin("+", M, Num(1)), Num(2))}, er \in EarlyR}
     \cup {PE("early", Bin("+", M, A), er, <<InA>>) : er \in EarlyR}
Extra2 == <<SLet("Signal", "p", Bin("+", M, Num(1)))>>
Extra3 == <<SLet("Signal", "p", Bin("*", M, Num(2))), SLet("Signal", "q", Bin(">", M, Num(3)))>>
\* operand ORDER: the running value on the right of a step, a held input (of the cell's type, by projection) on the left
AM == Proj(A, TName(TM))
FsO == {Bin(op, AM, Bin("*", M, Num(3))) : op \in {"+", "-", "XOR"}} \cup {Bin(op, Bin("*", M, Num(3)), AM) : op \in {"-", "XOR"}}
       \cup {Bin(op, AM, M) : op \in {"+", "-"}} \cup {Bin("%", Bin(op, AM, Bin("+", M, Num(1))), Num(17)) : op \in {"+", "-"}}
       \cup {Bin("-", Num(50), Bin("*", M, Num(3))), Bin("-", Bin("-", Num(50), M), AM), Bin("+", AM, Bin("-", Num(9), M))}
\* plain registers: an unconditional write of a value that does NOT depend on the cell (not C04's subject; used where "any program" is
\* quantified - determinism, optimisation - next to the self-referential ones, which they resemble node for node)
FsR == {Bin("+", A, Num(1)), Bin("*", Bin("+", A, Num(1)), Num(2)), Bin("*", A, Num(2)), Bin("%", Bin("+", A, Num(1)), Num(10))}
InAM == SIn("a", TM, 3)
All == {P("register", f, <<>>, <<InAM>>) : f \in FsR} \cup {P("register", Bin("+", Proj(A, TName(TM)), Num(1)), <<>>, <<InA>>)} \cup Early \cup {P("order", f, <<>>, <<InA>>) : f \in FsO} \cup {P("const", f, <<>>, <<>>) : f \in Fs1} \cup {P("input", f, <<>>, <<InA>>) : f \in FsA} \cup {P("cond", f, <<>>, <<>>) : f \in FsC}
   \cup {P("readers", f, Extra2, <<>>) : f \in {Bin("+", M, Num(1)), Bin("%", Bin("+", M, Num(1)), Num(10)), CondE(Bin("<", M, Num(10)), Bin("+", M, Num(1)))}}
   \cup {P("readers", f, Extra3, <<InA>>) : f \in {Bin("+", M, A), Bin("AND", Bin("+", Bin("*", M, Num(5)), Num(3)), Num(255))}}
ASSUME PrintT(<<"NPROGS", Cardinality(All)>>)
ASSUME JsonSerialize(IOEnv.GEN_OUT, SetToSeq(All))
=============================================================================
