"""Shared plumbing: paths, compile pool, TLC runner, output parsing."""
import json
import os
import re
import shutil
import subprocess
import sys
import threading
import time
from concurrent.futures import ThreadPoolExecutor

VERIF = os.path.dirname(os.path.dirname(os.path.abspath(__file__)))
REPO = os.environ.get("VERIF_REPO", "/repo")
TLA = os.path.join(VERIF, "tla")
WORK = os.path.join(VERIF, "work")
CACHE = os.path.join(VERIF, "cache")
VENV_PY = "/venv/bin/python"
TLA_JAR = "/opt/veriftools/tla/tla2tools.jar"
CM_JAR = "/opt/veriftools/tla/CommunityModules-deps.jar"
NCPU = min(16, os.cpu_count() or 4)


class Machinery(Exception):
    """The checking machinery itself failed (exit 2); never reported as a violation."""


def workdir(tag):
    d = os.path.join(WORK, "%s-%d" % (tag, os.getpid()))
    shutil.rmtree(d, ignore_errors=True)
    os.makedirs(d)
    return d


# ----------------------------------------------------------------------------- compile pool
class Worker:
    def __init__(self, hashseed="0", extra_env=None):
        env = dict(os.environ)
        env["PYTHONPATH"] = REPO
        env["PYTHONHASHSEED"] = str(hashseed)
        env["FACTOMPILER_VERIF"] = "1"
        env.pop("FACTOMPILER_VERIF_TRACE", None)
        if extra_env:
            env.update(extra_env)
        self.p = subprocess.Popen([VENV_PY, os.path.join(VERIF, "harness", "worker.py")], stdin=subprocess.PIPE,
                                  stdout=subprocess.PIPE, stderr=subprocess.DEVNULL, text=True, env=env, cwd=WORK)
        line = self.p.stdout.readline()
        if not line or '"ready"' not in line:
            raise Machinery("compile worker failed to start (cannot import the compiler from %s)" % REPO)

    def compile(self, job, timeout=300):
        self.p.stdin.write(json.dumps(job) + "\n")
        self.p.stdin.flush()
        res = {}
        done = threading.Event()

        def rd():
            res["line"] = self.p.stdout.readline()
            done.set()
        t = threading.Thread(target=rd, daemon=True)
        t.start()
        if not done.wait(timeout):
            self.p.kill()
            return {"id": job["id"], "status": "timeout", "message": "compile exceeded %ds" % timeout, "dead": True}
        if not res["line"]:
            return {"id": job["id"], "status": "crashed", "message": "worker died", "exc": "process", "dead": True}
        return json.loads(res["line"])

    def close(self):
        try:
            self.p.stdin.close()
            self.p.wait(timeout=5)
        except Exception:
            self.p.kill()


def compile_all(jobs, nworkers=None, hashseed="0", timeout=300, extra_env=None):
    """Compile every job with the compiler of REPO's current working tree. Returns {id: result}."""
    nworkers = min(nworkers or NCPU, max(1, len(jobs)))
    os.makedirs(WORK, exist_ok=True)
    results = {}
    lock = threading.Lock()
    queue = list(reversed(jobs))

    def loop():
        w = Worker(hashseed, extra_env)
        try:
            while True:
                with lock:
                    if not queue:
                        return
                    job = queue.pop()
                if job.get("fresh"):       # this job gets a process of its own (nothing was compiled in it before)
                    w2 = Worker(hashseed, extra_env)
                    try:
                        r = w2.compile(job, timeout)
                    finally:
                        w2.close()
                else:
                    r = w.compile(job, timeout)
                with lock:
                    results[job["id"]] = r
                if r.get("dead"):
                    w.close()
                    w = Worker(hashseed, extra_env)
        finally:
            w.close()
    with ThreadPoolExecutor(nworkers) as ex:
        futs = [ex.submit(loop) for _ in range(nworkers)]
        for f in futs:
            f.result()
    return results


# ----------------------------------------------------------------------------- TLC
TLA_LIB = [TLA]   # a run snapshots tla/ into its work directory so that concurrent edits cannot disturb it


def snapshot_tla(wd):
    dst = os.path.join(wd, "tla")
    shutil.copytree(TLA, dst, ignore=shutil.ignore_patterns("stub"))
    TLA_LIB[0] = dst
    return dst


def java_cmd(xmx="3g"):
    return ["java", "-XX:+UseSerialGC", "-Xss64m", "-Xmx" + xmx, "-DTLA-Library=" + TLA_LIB[0],
            "-cp", TLA_JAR + ":" + CM_JAR, "tlc2.TLC"]


def run_tlc(module_dir, module, cfg=None, workers=1, timeout=3600, extra=(), xmx="3g", simulate=None, coverage=False):
    """Run TLC on module_dir/module.tla. Returns (exit code, stdout text, wall seconds)."""
    meta = os.path.join(module_dir, "states-" + module)
    cmd = java_cmd(xmx) + ["-workers", str(workers), "-metadir", meta, "-noGenerateSpecTE", "-nowarning"]
    if cfg:
        cmd += ["-config", cfg]
    if simulate:
        cmd += ["-simulate", simulate]
    if coverage:
        cmd += ["-coverage", "1"]
    cmd += list(extra) + [module]
    t0 = time.time()
    try:
        p = subprocess.run(cmd, cwd=module_dir, capture_output=True, text=True, timeout=timeout)
        out, code = p.stdout + p.stderr, p.returncode
    except subprocess.TimeoutExpired as ex:
        out = (ex.stdout or b"").decode("utf-8", "replace") if isinstance(ex.stdout, bytes) else (ex.stdout or "")
        out += "\nTLC-TIMEOUT after %ds" % timeout
        code = 124
    shutil.rmtree(meta, ignore_errors=True)
    return code, out, time.time() - t0


def run_tlc_many(tasks, parallel=None):
    """tasks: list of dicts with run_tlc kwargs. Runs them concurrently (one JVM each)."""
    parallel = parallel or NCPU
    with ThreadPoolExecutor(parallel) as ex:
        futs = [ex.submit(run_tlc, **t) for t in tasks]
        return [f.result() for f in futs]


STATES_RE = re.compile(r'(\d+) states generated, (\d+) distinct states found')


def tlc_stats(out):
    m = None
    for m in STATES_RE.finditer(out):
        pass
    if not m:
        return 0, 0
    return int(m.group(2)), int(m.group(1))


def tlc_errors(out):
    """TLC's own error lines (a machinery failure unless we are replaying with real invariants)."""
    errs = []
    lines = out.splitlines()
    for i, l in enumerate(lines):
        if l.startswith("Error:") or "TLC-TIMEOUT" in l or l.startswith("Exception in thread"):
            errs.append(" ".join(lines[i:i + 4])[:600])
    return errs


# ------------------------------------------------------------- TLA+ value printer parsing
def split_top(s):
    """Split the inside of a TLA+ tuple/sequence text at top-level commas."""
    parts, depth, cur, instr, esc = [], 0, [], False, False
    i = 0
    while i < len(s):
        ch = s[i]
        if instr:
            cur.append(ch)
            if esc:
                esc = False
            elif ch == '\\':
                esc = True
            elif ch == '"':
                instr = False
        elif ch == '"':
            instr = True
            cur.append(ch)
        elif ch in '<[({':
            if ch == '<' and s[i:i + 2] == '<<':
                depth += 1
                cur.append('<<')
                i += 2
                continue
            if ch != '<':
                depth += 1
            cur.append(ch)
        elif ch in '>])}':
            if ch == '>' and s[i:i + 2] == '>>':
                depth -= 1
                cur.append('>>')
                i += 2
                continue
            if ch != '>':
                depth -= 1
            cur.append(ch)
        elif ch == ',' and depth == 0:
            parts.append(''.join(cur).strip())
            cur = []
        else:
            cur.append(ch)
        i += 1
    if cur:
        parts.append(''.join(cur).strip())
    return parts


def tagged_tuples(out, tag):
    """All printed tuples <<"TAG", ...>> (possibly spanning lines) as lists of raw field strings."""
    res = []
    key = re.compile(r'<<\s*"%s"' % re.escape(tag))
    pos = 0
    while True:
        m = key.search(out, pos)
        if not m:
            break
        i = m.start()
        depth, j, instr, esc = 0, i, False, False
        while j < len(out):
            if instr:
                if esc:
                    esc = False
                elif out[j] == '\\':
                    esc = True
                elif out[j] == '"':
                    instr = False
                j += 1
                continue
            if out[j] == '"':
                instr = True
                j += 1
                continue
            if out.startswith('<<', j):
                depth += 1
                j += 2
                continue
            if out.startswith('>>', j):
                depth -= 1
                j += 2
                if depth == 0:
                    break
                continue
            j += 1
        body = out[i + 2:j - 2]
        res.append(split_top(' '.join(body.split())))
        pos = j
    return res


def unq(s):
    s = s.strip()
    if s.startswith('"') and s.endswith('"'):
        return s[1:-1].replace('\\"', '"').replace('\\\\', '\\')
    return s
