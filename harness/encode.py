"""Generic JSON -> TLA+ literal encoder (DESIGN 4.2: deliberately dumb).

object -> record (or string-keyed function when a key is not an identifier),
array -> sequence, string, integer, bool.  JSON null members are omitted.
No defaults are filled, no networks computed, nothing else dropped.
Documented glue, nothing more:
  * a float must be a multiple of 0.5 and becomes [f2 |-> doubled integer];
    the members x / y of a `position` object are always encoded that way
  * `player_description` is additionally split by a fixed regex into
    desc = [var, role, line, sig, comp, op] because TLC has no substring operators
  * an integer outside int32 becomes the string-tagged record [oor |-> "<decimal>"]
    so that the spec, not the encoder, decides what it means (C11_range)
"""
import re

IDENT = re.compile(r'^[A-Za-z][A-Za-z0-9_]*$')
RESERVED = {'IF', 'THEN', 'ELSE', 'LET', 'IN', 'CASE', 'OTHER', 'CHOOSE', 'DOMAIN', 'SUBSET', 'UNION', 'EXCEPT',
            'ENABLED', 'UNCHANGED', 'TRUE', 'FALSE', 'BOOLEAN', 'STRING', 'VARIABLE', 'VARIABLES', 'CONSTANT',
            'CONSTANTS', 'EXTENDS', 'INSTANCE', 'WITH', 'MODULE', 'LOCAL', 'ASSUME', 'THEOREM', 'LAMBDA', 'WF_', 'SF_'}


def tstr(x):
    out = []
    for ch in x:
        if ch == '\\':
            out.append('\\\\')
        elif ch == '"':
            out.append('\\"')
        elif ch == '\n':
            out.append('\\n')
        elif ch == '\t':
            out.append('\\t')
        elif ord(ch) < 32:
            out.append('?')
        else:
            out.append(ch)
    return '"' + ''.join(out) + '"'


def enc_int(v):
    if v < -2 ** 31 or v > 2 ** 31 - 1:
        return '[oor |-> %s]' % tstr(str(v))
    if v == -2 ** 31:
        return '(-2147483647 - 1)'
    return str(v) if v >= 0 else '(%d)' % v


def enc_f2(v):
    d = v * 2
    if abs(d - round(d)) > 1e-9:
        raise ValueError('coordinate %r is not a multiple of 0.5' % (v,))
    return '[f2 |-> %s]' % enc_int(int(round(d)))


def enc(v, key=None):
    if v is True:
        return 'TRUE'
    if v is False:
        return 'FALSE'
    if isinstance(v, int):
        return enc_int(v)
    if isinstance(v, float):
        return enc_f2(v)
    if isinstance(v, str):
        return tstr(v)
    if isinstance(v, (list, tuple)):
        return '<<' + ', '.join(enc(x) for x in v) + '>>'
    if isinstance(v, (set, frozenset)):
        return '{' + ', '.join(sorted(enc(x) for x in v)) + '}'
    if isinstance(v, dict):
        items = [(k, x) for k, x in v.items() if x is not None]
        if not items:
            return '<<>>'
        if key == 'position':
            return '[' + ', '.join('%s |-> %s' % (k, enc_f2(float(x))) for k, x in items) + ']'
        if all(IDENT.match(k) and k not in RESERVED for k, _ in items):
            return '[' + ', '.join('%s |-> %s' % (k, enc(x, k)) for k, x in items) + ']'
        return '(' + ' @@ '.join('%s :> %s' % (tstr(k), enc(x, k)) for k, x in items) + ')'
    if v is None:
        raise TypeError('null must be omitted by the caller')
    raise TypeError(type(v))


DESC = re.compile(r'^(?:\[(?P<loc>[^\]]*)\]\s+)?(?P<comp>computing\s+)?(?P<var>.+?)'
                  r'(?:\s+\((?P<op>[^()]*(?:\([^()]*\))?[^()]*)\))?(?:\s+->\s+(?P<sig>\S+))?$')
VALUE = re.compile(r'^value=(-?\d+)(\s+\(input\))?$')


def split_desc(d):
    """[file:line] name (operation) -> signal   (format_entity_description in the compiler)."""
    if not d:
        return {'raw': '', 'var': '', 'role': 'none', 'line': 0, 'sig': '', 'op': ''}
    m = DESC.match(d)
    if not m:
        return {'raw': d, 'var': '', 'role': 'unparsed', 'line': 0, 'sig': '', 'op': ''}
    op = m.group('op') or ''
    vm = VALUE.match(op)
    if op == 'output anchor':
        role = 'anchor'
    elif vm and vm.group(2):
        role = 'input'
    elif vm:
        role = 'const'
    elif m.group('comp'):
        role = 'computing'
    else:
        role = 'producer'
    line = 0
    loc = m.group('loc') or ''
    if ':' in loc:
        try:
            line = int(loc.rsplit(':', 1)[1])
        except ValueError:
            pass
    elif loc.startswith('line '):
        try:
            line = int(loc[5:])
        except ValueError:
            pass
    out = {'raw': d, 'var': m.group('var'), 'role': role, 'line': line, 'sig': m.group('sig') or '', 'op': op}
    if vm:
        out['value'] = int(vm.group(1))
    return out


def _scrub(v, path, oor):
    """Replace integers outside int32 by 0 and report them (the spec's clause C11_range judges them)."""
    if isinstance(v, bool):
        return v
    if isinstance(v, int):
        if v < -2 ** 31 or v > 2 ** 31 - 1:
            oor.append({"path": path, "value": str(v)})
            return 0
        return v
    if isinstance(v, list):
        return [_scrub(x, "%s[%d]" % (path, i), oor) for i, x in enumerate(v)]
    if isinstance(v, dict):
        return {k: _scrub(x, path + "." + k, oor) for k, x in v.items()}
    return v


def prep_bp(bpjson, extra=()):
    """blueprint JSON (as emitted) -> dict ready for enc(): entities with desc split, wires as ints."""
    bp = bpjson['blueprint'] if 'blueprint' in bpjson else bpjson
    ents = []
    oor = []
    for i, e in enumerate(bp.get('entities', [])):
        e = _scrub(dict(e), "entities[%d]" % (i + 1), oor)
        e['desc'] = split_desc(e.get('player_description'))
        ents.append(e)
    wires = [[int(x) for x in w] for w in bp.get('wires', [])]
    out = {'entities': ents, 'wires': wires, 'extra': list(extra), 'oor': oor}
    if 'version' in bp:
        out['version_hi'] = int(bp['version']) >> 48
    return out
