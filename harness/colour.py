"""Binding of the wire-colour design model (tla/Colour.tla) to layout/wire_router.plan_wire_colors.

code -> spec : hook H5 events ("colour") of real compilations, ranked and judged by TraceColour.tla
spec -> code : every instance of GenColour.tla (enumerated by TLC) fed to the real function (a /venv subprocess importing the
               repository under test), results judged by the same TraceColour.tla
"""
import json
import os
import subprocess

import gen
import refine
from common import REPO as VERIF_REPO, Machinery, run_tlc_many, tagged_tuples, tlc_errors, tlc_stats, unq
from encode import enc

CFG_TRACE_COLOUR = """SPECIFICATION TSpec
CONSTANT LockedFirst = TRUE
INVARIANT Judge
INVARIANT Safe
POSTCONDITION Accepted
CHECK_DEADLOCK FALSE
"""

MAX_EDGES = 120     # larger calls are counted, not judged (TLC time grows quadratically with the conflict graph)


def _rank(values):
    return {v: i + 1 for i, v in enumerate(sorted(set(values)))}


def rank_call(ev):
    """Raw H5 event (names) -> the call with every name replaced by its rank in Python's string order."""
    edges, locked, assign = ev["edges"], ev["locked"], ev["assign"]
    firsts = [e[0] for e in edges if e[0] is not None] + [l[0] for l in locked] + [a[0] for a in assign]
    for c in ev.get("conflicts", []):
        firsts += [c[0][0], c[1][0]]
    seconds = [e[2] for e in edges] + [l[1] for l in locked] + [a[1] for a in assign]
    r1, r2 = _rank(firsts), _rank(seconds)
    rs = _rank([e[1] for e in edges])
    rm = _rank([e[3] for e in edges if e[3] is not None])
    return {
        "edges": [{"src": r1[e[0]] if e[0] is not None else 0, "snk": rs[e[1]], "sig": r2[e[2]], "merge": rm[e[3]] if e[3] is not None else 0}
                  for e in edges],
        "locked": [{"n": [r1[l[0]], r2[l[1]]], "c": l[2]} for l in locked],
        "assign": [{"n": [r1[a[0]], r2[a[1]]], "c": a[2]} for a in assign],
        "bip": bool(ev["bip"]),
        "conf": [[[r1[c[0][0]], r2[c[0][1]]], [r1[c[1][0]], r2[c[1][1]]]] for c in ev.get("conflicts", [])],
    }


def judge(wd, calls, batch_size=2500, tag="col"):
    """calls: list of {"id", "call"(ranked), ...}. Returns (fails [(id, clause, info)], diverged ids, judged count, states)."""
    batches = []
    for i in range(0, len(calls), batch_size):
        bdir = os.path.join(wd, "%s%03d" % (tag, i // batch_size))
        os.makedirs(bdir, exist_ok=True)
        with open(os.path.join(bdir, "Data.tla"), "w") as fh:
            fh.write("---- MODULE Data ----\nEXTENDS Integers, TLC\nTraces == <<\n  "
                     + ",\n  ".join(enc({"id": c["id"], "call": c["call"]}) for c in calls[i:i + batch_size]) + "\n>>\n====\n")
        with open(os.path.join(bdir, "T.tla"), "w") as fh:
            fh.write("---- MODULE T ----\nEXTENDS TraceColour\n====\n")
        with open(os.path.join(bdir, "T.cfg"), "w") as fh:
            fh.write(CFG_TRACE_COLOUR)
        batches.append(bdir)
    outs = run_tlc_many([dict(module_dir=b, module="T", cfg="T.cfg", workers=1, timeout=2400) for b in batches], None)
    fails, div, judged, states = [], [], set(), 0
    for bdir, (code, out, wall) in zip(batches, outs):
        with open(os.path.join(bdir, "tlc.out"), "w") as fh:
            fh.write(out)
        errs = tlc_errors(out)
        if errs or code != 0:
            raise Machinery("TraceColour failed to run in %s: exit %s %s" % (bdir, code, "; ".join(errs)[:600]))
        states += tlc_stats(out)[0]
        for f in tagged_tuples(out, "FAIL"):
            fails.append((unq(f[1]), unq(f[2]), ", ".join(f[3:])))
        for f in tagged_tuples(out, "DIVERGE"):
            div.append(unq(f[1]))
        for f in tagged_tuples(out, "TRACE"):
            if int(f[2]) == 1:
                judged.add(unq(f[1]))
    missing = [c["id"] for c in calls if c["id"] not in judged]
    if missing:
        raise Machinery("TraceColour: %d of %d calls were not run to the end by the model (first: %s)" % (len(missing), len(calls), missing[0]))
    return fails, div, len(judged), states


def validate_events(ctx, compiled, progs):
    """code -> spec: judge every H5 event of the given compilations. Violations are added to ctx."""
    calls, raw, skipped = [], {}, 0
    for p in progs:
        for suf, r in (compiled.get(p["id"]) or {}).items():
            if r.get("status") != "ok":
                continue
            k = 0
            for e in r.get("events", []):
                if e.get("ev") != "colour":
                    continue
                k += 1
                if len(e["edges"]) > MAX_EDGES:
                    skipped += 1
                    continue
                cid = "%s%s/colour%d" % (p["id"], suf, k)
                calls.append({"id": cid, "call": rank_call(e)})
                raw[cid] = (p, suf, e)
    ctx.add("colour_calls_recorded", len(calls) + skipped)
    ctx.add("colour_calls_too_large_not_judged", skipped)
    if not calls:
        raise Machinery("no wire-colour planner call was recorded (hook H5 missing or trace not enabled?)")
    fails, div, judged, states = judge(ctx.wd, calls, batch_size=150, tag="colt")
    ctx.add("colour_calls_judged", judged)
    ctx.add("colour_calls_with_locks", sum(1 for c in calls if c["call"]["locked"]))
    ctx.add("colour_calls_with_conflict_edges", sum(1 for c in calls if _has_conflict(c["call"])))
    ctx.add("colour_model_divergences(info)", len(div))
    ctx.add("states", states)
    for cid, clause, info in fails:
        p, suf, e = raw[cid]
        ctx.violation(cid, clause, info, {"kind": "colour", "src": p.get("src"), "src2": p.get("src2"), "variant": suf, "event": e})
    return len(fails)


def _has_conflict(call):
    seen = {}
    for e in call["edges"]:
        if e["src"]:
            seen.setdefault((e["snk"], e["sig"]), set()).add(e["src"])
    return any(len(v) > 1 for v in seen.values())


_RUNNER = r'''
import json, sys
from dsl_compiler.src.layout.wire_router import CircuitEdge, plan_wire_colors
inst = json.load(open(sys.argv[1]))
out = []
for it in inst:
    edges = [CircuitEdge(logical_signal_id="l", resolved_signal_name="g%04d" % e["sig"], source_entity_id=("s%04d" % e["src"]) if e["src"] else None,
                         sink_entity_id="t%04d" % e["snk"], originating_merge_id=("m%04d" % e["merge"]) if e["merge"] else None) for e in it["edges"]]
    locked = {("s%04d" % l["n"][0], "g%04d" % l["n"][1]): l["c"] for l in it["locked"]}
    try:
        r = plan_wire_colors(edges, locked)
        out.append({"assign": [[int(k[0][1:]), int(k[1][1:]), v] for k, v in r.assignments.items()], "bip": bool(r.is_bipartite),
                    "conf": [[[int(c.nodes[0][0][1:]), int(c.nodes[0][1][1:])], [int(c.nodes[1][0][1:]), int(c.nodes[1][1][1:])]] for c in r.conflicts]})
    except Exception as exc:
        out.append({"error": "%s: %s" % (type(exc).__name__, exc)})
json.dump(out, open(sys.argv[2], "w"))
'''


def run_real(wd, insts):
    """Feed instances (ranked, GenColour format) to the real plan_wire_colors of the repository under test."""
    fin, fout, script = os.path.join(wd, "col-in.json"), os.path.join(wd, "col-out.json"), os.path.join(wd, "col-run.py")
    with open(fin, "w") as fh:
        json.dump(insts, fh)
    with open(script, "w") as fh:
        fh.write(_RUNNER)
    env = dict(os.environ, PYTHONPATH=VERIF_REPO, PYTHONHASHSEED="0")
    env.pop("FACTOMPILER_VERIF_TRACE", None)
    r = subprocess.run(["/venv/bin/python", script, fin, fout], env=env, capture_output=True, text=True, timeout=1800, cwd=wd)
    if r.returncode != 0 or not os.path.exists(fout):
        raise Machinery("running plan_wire_colors on generated instances failed: " + (r.stderr or r.stdout)[-1500:])
    with open(fout) as fh:
        return json.load(fh)


def validate_instances(ctx, quick=False):
    """spec -> code: GenColour instances through the real function, judged by TraceColour."""
    insts = gen.generate("GenColour", deps=(), env={"COL_SCALE": "quick" if quick else "full"}, timeout=1800)
    ctx.cov["colour_instance_universe"] = len(insts)
    outs = run_real(ctx.wd, insts)
    calls, raw = [], {}
    for i, (it, o) in enumerate(zip(insts, outs)):
        cid = "gc-%s-%d" % (it["grp"], i)
        if "error" in o:
            ctx.violation(cid, "COL_total", "plan_wire_colors raised on a well-formed instance: " + o["error"], {"kind": "colour-instance", "instance": it})
            continue
        call = {"edges": it["edges"], "locked": it["locked"], "assign": [{"n": [a[0], a[1]], "c": a[2]} for a in o["assign"]],
                "bip": o["bip"], "conf": o["conf"]}
        calls.append({"id": cid, "call": call})
        raw[cid] = it
    fails, div, judged, states = judge(ctx.wd, calls, batch_size=2500, tag="coli")
    ctx.add("colour_instances_judged", judged)
    ctx.add("colour_instance_divergences(info)", len(div))
    ctx.add("states", states)
    ctx.add("evaluations", judged)
    for cid, clause, info in fails:
        ctx.violation(cid, clause, info, {"kind": "colour-instance", "instance": raw[cid]})
    return len(fails)


def replay_colour(ctx, rp):
    """Replay of a COL_* violation: the recorded INPUT of the planner is fed to the real function of the current tree again."""
    pl = rp["payload"]
    if pl["kind"] == "colour":
        call = rank_call(pl["event"])
        inst = {"grp": "replay", "edges": call["edges"], "locked": call["locked"]}
    else:
        inst = pl["instance"]
    o = run_real(ctx.wd, [inst])[0]
    if "error" in o:
        print("replay: plan_wire_colors raises: " + o["error"])
        return 1
    call = {"edges": inst["edges"], "locked": inst["locked"], "assign": [{"n": [a[0], a[1]], "c": a[2]} for a in o["assign"]], "bip": o["bip"], "conf": o["conf"]}
    fails, div, judged, states = judge(ctx.wd, [{"id": rp["record"], "call": call}], tag="colr")
    for cid, clause, info in fails:
        print("  clause=%s %s" % (clause, info[:1500]))
    if fails:
        print("VIOLATION property=%s replay=%s" % (ctx.pid, rp.get("path", "")))
        return 1
    print("replay: the recorded planner input is now coloured correctly")
    return 0
