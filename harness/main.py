"""Entry point: check <ID> [--tier quick|thorough] [--replay PATH] [--explore --seed N]

exit 0  property held on everything explored (possibly with KNOWN-FINDING lines)
exit 1  + `VIOLATION property=<id> replay=<path>` for a violation not listed in known_findings.json
exit 2  machinery failure (TLC error, parse failure, vacuity, binding self-test failure)
"""
import argparse
import json
import os
import shutil
import sys
import time
import traceback

sys.path.insert(0, os.path.dirname(os.path.abspath(__file__)))

from common import VERIF, Machinery, workdir, snapshot_tla  # noqa: E402


class Ctx:
    def __init__(self, pid, tier, seed, explore=False):
        self.pid = pid
        self.tier = tier
        self.seed = seed
        self.explore = explore
        self.t0 = time.time()
        self.wd = workdir(pid)
        snapshot_tla(self.wd)
        self.violations = []     # dicts: id, clause, info, replay payload
        self.known = {}          # kf id -> count
        self.cov = {"evaluations": 0, "distinct_nontrivial": 0, "states": 0, "transitions": 0,
                    "traces_validated_against_impl": 0, "samples": [], "exhaustive": False}
        self.assumptions = []
        self.notes = []
        self.level = "model_checking"

    def add(self, key, n):
        self.cov[key] = self.cov.get(key, 0) + n

    def sample(self, s, limit=6):
        if len(self.cov["samples"]) < limit:
            self.cov["samples"].append(s)

    def violation(self, rec_id, clause, info, payload):
        self.violations.append({"id": rec_id, "clause": clause, "info": info, "payload": payload})


def load_known():
    with open(os.path.join(VERIF, "known_findings.json")) as fh:
        return json.load(fh)


def write_evidence(ctx, nviol):
    ev = {
        "property_id": ctx.pid,
        "tier": ctx.tier,
        "seed": ctx.seed,
        "level": ctx.level,
        "coverage": ctx.cov,
        "assumptions": ctx.assumptions,
        "wall_s": round(time.time() - ctx.t0, 2),
        "violations": nviol,
    }
    if ctx.notes:
        ev["coverage"]["notes"] = ctx.notes
    if ctx.known:
        ev["coverage"]["known_findings_hit"] = ctx.known
    os.makedirs(os.path.join(VERIF, "evidence"), exist_ok=True)
    path = os.path.join(VERIF, "evidence", ctx.pid + ".json")
    tmp = path + ".tmp"
    with open(tmp, "w") as fh:
        json.dump(ev, fh, indent=1, sort_keys=True)
    os.replace(tmp, path)


def finish(ctx):
    kfs = {k["id"]: k for k in load_known()["findings"]}
    for kid, n in sorted(ctx.known.items()):
        k = kfs.get(kid, {})
        print("KNOWN-FINDING: property=%s %s: %s [%d failing observations on this run]" % (ctx.pid, kid, k.get("what", "?"), n))
    seen = set()
    nviol = 0
    rdir = os.path.join(VERIF, "replays", ctx.pid)
    for v in ctx.violations:
        key = (v["id"], v["clause"])
        if key in seen:
            continue
        seen.add(key)
        nviol += 1
        if nviol > 40:
            continue
        os.makedirs(rdir, exist_ok=True)
        path = os.path.join(rdir, "%s-%s.json" % (str(v["id"]).replace("/", "_").replace("#", "_"), v["clause"]))
        with open(path, "w") as fh:
            json.dump({"property": ctx.pid, "record": v["id"], "clause": v["clause"], "info": v["info"],
                       "payload": v["payload"]}, fh, indent=1)
        print("VIOLATION property=%s replay=%s" % (ctx.pid, path))
        print("  clause=%s %s" % (v["clause"], v["info"][:400]))
    write_evidence(ctx, nviol)
    shutil.rmtree(ctx.wd, ignore_errors=True)
    print("%s tier=%s seed=%d: %d evaluations, %d states, %d violations, %.0fs" % (
        ctx.pid, ctx.tier, ctx.seed, ctx.cov.get("evaluations", 0), ctx.cov.get("states", 0), nviol, time.time() - ctx.t0))
    return 1 if nviol else 0


def main():
    ap = argparse.ArgumentParser()
    ap.add_argument("prop")
    ap.add_argument("--tier", default=os.environ.get("VERIF_TIER", "quick"), choices=["quick", "thorough"])
    ap.add_argument("--replay")
    ap.add_argument("--explore", action="store_true")
    ap.add_argument("--seed", type=int, default=None)
    args = ap.parse_args()
    seed = args.seed if args.seed is not None else int(os.environ.get("VERIF_SEED", "0") or 0)
    import props
    if args.prop == "setup":
        import selftest
        sys.exit(selftest.run())
    if args.prop not in props.REGISTRY:
        print("unknown property %s" % args.prop)
        sys.exit(2)
    ctx = Ctx(args.prop, args.tier, seed, args.explore)
    try:
        if args.replay:
            code = props.replay(ctx, args.replay)
            shutil.rmtree(ctx.wd, ignore_errors=True)
            sys.exit(code)
        shutil.rmtree(os.path.join(VERIF, "replays", args.prop), ignore_errors=True)
        props.REGISTRY[args.prop](ctx)
        sys.exit(finish(ctx))
    except Machinery as ex:
        print("MACHINERY-FAILURE property=%s: %s" % (args.prop, ex))
        sys.exit(2)
    except Exception:
        traceback.print_exc()
        print("MACHINERY-FAILURE property=%s: unexpected exception" % args.prop)
        sys.exit(2)


if __name__ == "__main__":
    main()
