#!/bin/sh
# parse every library module against the stub Data module
cd /verif/tla/stub || exit 2
rc=0
for m in "$@"; do
  out=$(java -DTLA-Library=/verif/tla -cp /opt/veriftools/tla/tla2tools.jar:/opt/veriftools/tla/CommunityModules-deps.jar tla2sany.SANY /verif/tla/$m.tla 2>&1)
  if echo "$out" | grep -q -i "error\|Could not\|Unknown operator\|conflicts with"; then echo "SANY FAIL $m"; echo "$out" | grep -v "^Parsing\|^Semantic processing\|^Linting" | head -20; rc=2; fi
done
exit $rc
