#!/bin/sh
# usage: importseed.sh <prop id> <seed name>   (copies the sub-agent's deliverables from /tmp/mut/<prop>/out)
set -e
P=$1; N=$2; D=/verif/seeded/$P-$N
mkdir -p $D
cp ${MUT:-/tmp/mut}/$P/out/patch.diff $D/patch.diff
cp ${MUT:-/tmp/mut}/$P/out/demo.py $D/demo.py
cp ${MUT:-/tmp/mut}/$P/out/notes.md $D/notes.md 2>/dev/null || true
echo imported $D; wc -l $D/patch.diff
