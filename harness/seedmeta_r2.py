"""One-off record keeper of the second seeded-change round: writes seeded/<seed>/meta.json from the confirmation logs.

  python3 harness/seedmeta_r2.py <confirmseed log> [<confirmseed log> ...]

A seed is only written when its log line shows demo original=0 changed=1 and 1907 passed tests (the two always-failing
tests/test_cli.py cases excepted); later log files override earlier ones.
"""
import json
import os
import sys

D = os.path.join(os.path.dirname(os.path.dirname(os.path.abspath(__file__))), "seeded")
INFO = {
 "C01-mod2-boolean-producer": ("`x % 2` and `x AND 1` added to the operand shapes treated as already 0/1 under && / ||: (x % 2) && c skips the != 0 normalisation, wrong for negative odd x",
   "a logical operator with one operand written as <expr> % 2, the other a recognised 0/1 producer; a negative odd dividend",
   "C01 thorough (GenScalar family 'bshape': every arithmetic operator x small constant on either side, negations, products of comparisons under && / || / ! / as a condition); quick catches it when the slice contains one of the 9 affected programs", "thorough"),
 "C02-cse-decider-copy-flag": ("copy_count_from_input dropped from the CSE key of deciders: (b > 0) : b and (b > 0) : 1 collide", "both filter forms on one bundle with the same comparison, constant output exactly 1",
   "C02 quick (GenBundle family 'nearb': ordered pairs of near-duplicate statements, observed directly and through a consumer), clause C02_bag", "quick"),
 "C03-callee-memory-refs-leak": ("the inliner no longer copies the name->cell table before a call: a callee-local Memory named like a caller cell stays bound in the caller",
   "function declaring a Memory whose name the caller also uses; the caller uses its cell after the call",
   "C03 quick (GenFL 'func:memclash' programs are part of the C03 corpus) and C15 quick; clauses C03_value, C01_settles, R2_equal", "quick"),
 "C04-feedback-first-consumer-walk": ("_find_first_memory_consumer walks back along the chain assuming the other operand of every step is a literal: a held input on the left makes it return None -> spurious self-feedback wire",
   "multi-step self-referential write with a step `x OP prev` (held input of the cell's type on the left)", "C04 quick (GenSelf family 'order'), clause C04_iterates", "quick"),
 "C05-latch-inline-same-type": ("latch inlining compares only the signal TYPE of the set / reset identifiers: two different inputs of one type are both read from the set input",
   "set= and reset= comparisons on two different identifiers of one signal type", "C05 quick (GenMem family 'latch2s'), clause C05_value", "quick"),
 "C06-entity-output-wire-merge": ("IREntityOutput counts as a simple wire source: c.output[x] + c.output[x] becomes a wire merge of one wire with itself (x instead of 2x)",
   "the same entity's .output evaluated twice and summed; contents v with v <= c < 2v", "C06 quick (GenEntity family 'twice'), clause C06_enable", "quick"),
 "C07-zero-valued-placement-property": ("`if not value: continue` in the emitter's placement-property loop: every property set to 0 is dropped",
   "a user-placed entity with a property set to 0 whose prototype default is not 0 (train-stop send_to_train, selector select_max)",
   "C07 quick (clause C07_user_property in Export.tla + GenEntity 'props' zero-valued / default-valued properties), also C09 (C09_props)", "quick"),
 "C08-tilegrid-user-entity-offset": ("the tile grid rebuilt before routing reads user-placed positions as top-left tiles although they are centres by then: relay poles may land inside a multi-tile user entity",
   "multi-tile user entity on the straight line of a connection > 9 tiles, about 7-8 tiles from the source", "C08 quick (GenLayout family 'obstacle'), clause C08_overlap", "quick"),
 "C09-trim-user-placed-pole": ("_trim_power_poles identifies poles by prototype instead of the is_power_pole marker: an isolated user-placed pole of the selected type is trimmed",
   "--power-poles T and a user-placed pole of type T with nothing within its supply area", "C09 quick (GenEntity family 'usermade', compiled with the matching pole option), clause C09_bag", "quick"),
 "C10-cse-commutative-power": ("operand keys of 'commutative' IRArith ops are sorted in the CSE key, and '^' (power in this IR) is in the set: a ** b and b ** a collide",
   "** on the same two operands in both orders on one output type", "C10 quick (GenScalar family 'swap'), clauses R2_exposed / R2_equal", "quick"),
 "C11-per-node-fold-cache-across-calls": ("constant folding results cached per AST node and cleared per loop iteration but not per call: a second call keeps the values folded for the first call's int arguments",
   "function with an int parameter inside a foldable expression, called twice with different constants", "C11 quick (GenFold sites 'calltwice', 'callliteral'; GenFL 'twocalls'), clauses C01_value, R2_equal", "quick"),
 "C12-literal-pool-joins-networks": ("identical anonymous constants share one constant combinator, whose wires join the input networks of all their consumers",
   "P and Q each use the same anonymous typed literal next to same-named operands", "C12 quick (GenPair programs with identical anonymous pieces), clause C12_isolated", "quick"),
 "C13-implicit-left-takes-right-type": ("untyped OP explicitly-typed takes the RIGHT operand's explicit type when it is not a signal-* name",
   "untyped left operand, item / fluid / colour signal on the right, arithmetic operator", "C13 quick (GenImplicit family 'kinds'), clauses C01_value, R2_equal", "quick"),
 "C14-nested-bundle-then-duplicate": ("flattened members of a nested bundle are no longer recorded in seen_signals: { pair, (\"signal-A\", 5) } is accepted",
   "bundle literal with a nested bundle first and a later direct element of a type the nested bundle contains", "C14 quick (GenIll: every route to a duplicate bundle type), clauses C14_rejected, C14_no_blueprint, C14_exit", "quick"),
 "C15-fold-resolves-shadowed-outer-int": ("_resolve_constant_symbol falls through from a Signal parameter / local to an outer compile-time int of the same name",
   "Signal parameter or callee local named like an outer int (global or loop iterator) used next to a constant", "C15 quick (GenFL family 'shadowint'), clauses C01_value, C06_enable, R2_equal", "quick"),
 "C16-range-count-negative-step": ("closed-form iteration count with divmod: a descending range whose step does not divide the span loses its last iteration",
   "for k in a..b step -s with s not dividing a-b", "C16 quick (GenFL ranges: every (start, stop, step) of a small box), clauses C06_entity, C09_bag", "quick"),
 "C17-fold-captures-importer-int": ("the resolver change of C15's seed seen through the library: a top-level int of the importing program named like a library parameter is folded into the library function's body",
   "importer owns int x / value / mask / t ... and calls abs, clamp, get_bit, lerp, ...", "C17 quick (GenImport family 'libnames'), clause C01_value", "quick"),
 "C18-copper-reach-one-sided": ("copper wires between poles are only checked against the reach of ONE end: big poles / substations wired to medium relay poles up to 32 tiles away",
   "--power-poles small / big / substation and a layout that needs circuit relay poles", "C18 quick (layout corpus with far entities x all pole options), clause C08_wire_reach", "quick"),
 "C19-class-level-feedback-cache": ("the arithmetic-feedback eligibility of a memory write is cached in a CLASS-level dict keyed by (memory id, node id): a later compile in the same process reuses a stale decision",
   "two compiles in one process of programs with the same memory name and node ids but different decisions (counter vs plain register)",
   "C19 quick (variations 'fresh-process' and 'after-sibling': a process of its own after up to 8 sibling programs; GenSelf 'register' programs), clause C19_entities", "quick"),
 "C20-alias-of-consumed-value-no-anchor": ("the output-marking rule requires 'no consumers' of the VALUE also for top-level aliases: an unconsumed alias of a consumed value gets no anchor",
   "Signal show = a; where a is also consumed by another statement", "C20 thorough (GenScalar 'share' alias programs), clauses C20_exposed, C20_label; quick when the slice contains one of the 4 alias programs", "thorough"),
}


def main():
    conf = {}
    for f in sys.argv[1:]:
        for line in open(f):
            if ": demo" in line:
                conf[line.split(":")[0]] = line.strip()
    n = 0
    for name, (chg, needs, caught, tier) in INFO.items():
        c = conf.get(name, "")
        if "original=0 changed=1" not in c or "1907 passed" not in c:
            print("NOT confirmed yet: %s (%s)" % (name, c[-90:]))
            continue
        meta = {"property": name.split("-")[0], "round": 2, "change": chg, "needs_to_manifest": needs, "caught_by": caught, "tier": tier,
                "first_result": "missed by both tiers when the seed arrived (the corpus lacked the dimension); caught after the family named in caught_by was added (DESIGN 14.10)",
                "origin": "written by a fresh sub-agent that was given only the text of the property, a scratch git worktree of /repo and one line naming the change already tried for this property in round 1",
                "ran": {"demo_and_suite": "harness/confirmseed.sh %s (scratch worktree of /repo HEAD, never /repo itself): %s" % (name, c.split(": ", 1)[1]),
                        "check": "python3-vt harness/seedtest.py %s%s (git -C /repo apply patch.diff; ./check; git -C /repo checkout -- .) -> CAUGHT; the same check exits 0 on the unchanged tree"
                                 % (name, " --tier thorough" if tier == "thorough" else "")}}
        with open(os.path.join(D, name, "meta.json"), "w") as fh:
            json.dump(meta, fh, indent=1)
        n += 1
    print("%d meta.json written" % n)


if __name__ == "__main__":
    main()
