"""code -> spec direction: validate compile records against the specification with TLC.

Each batch is a scratch directory holding a generated Data.tla (blueprints exactly as emitted +
program ASTs as TLA+ literals), a root module T.tla that EXTENDS the property module unchanged, and a
cfg.  One single-worker TLC process per batch, many batches in parallel (DESIGN 4.4)."""
import json
import os

from common import Machinery, run_tlc_many, tagged_tuples, tlc_errors, tlc_stats, unq, NCPU
from encode import enc, prep_bp

CFG_REFINE = """SPECIFICATION Spec
INVARIANT CountInit
INVARIANT Judge
INVARIANT Settles
POSTCONDITION Summary
CHECK_DEADLOCK FALSE
"""


CFG_TICK = """SPECIFICATION TSpec
INVARIANT TCountInit
INVARIANT TJudge
POSTCONDITION Summary
CHECK_DEADLOCK FALSE
"""


def data_module(bps, recs, consts):
    lines = ["---- MODULE Data ----", "EXTENDS Integers, TLC"]
    for k, v in consts.items():
        lines.append("%s == %s" % (k, enc(set(v) if k == "Clauses" else v)))
    lines.append("BPs == <<\n  " + ",\n  ".join(enc(b) for b in bps) + "\n>>")
    lines.append("Recs == <<\n  " + ",\n  ".join(enc(r) for r in recs) + "\n>>")
    lines.append("====")
    return "\n".join(lines) + "\n"


def write_batch(bdir, module, cfg_text, bps, recs, consts):
    os.makedirs(bdir, exist_ok=True)
    with open(os.path.join(bdir, "Data.tla"), "w") as fh:
        fh.write(data_module(bps, recs, consts))
    with open(os.path.join(bdir, "T.tla"), "w") as fh:
        fh.write("---- MODULE T ----\nEXTENDS %s\n====\n" % module)
    with open(os.path.join(bdir, "T.cfg"), "w") as fh:
        fh.write(cfg_text)


class BatchResult:
    def __init__(self):
        self.fails = []      # (id, clause, info text)
        self.known = []      # (id, clause, kf id)
        self.summaries = {}  # id -> list of raw fields
        self.states = 0
        self.transitions = 0
        self.errors = []
        self.wall = 0.0


def run_batches(wd, module, cfg_text, items, consts, batch_size=40, timeout=3000, parallel=None):
    """items: list of (record dict with key 'bps' = list of prepared blueprints, rest = Recs entry).
    Record field 'u' (and 'u2'...) are indices into the record's own 'bps' list; they are shifted to
    batch-global indices here."""
    batches = []
    for i in range(0, len(items), batch_size):
        chunk = items[i:i + batch_size]
        bps, recs = [], []
        for it in chunk:
            base = len(bps)
            rec = {k: v for k, v in it.items() if k != "bps"}
            for key in ("u", "u2", "u3"):
                if key in rec:
                    rec[key] = rec[key] + base
            bps.extend(it["bps"])
            recs.append(rec)
        bdir = os.path.join(wd, "b%03d" % (i // batch_size))
        write_batch(bdir, module, cfg_text, bps, recs, consts)
        batches.append(bdir)
    outs = run_tlc_many([dict(module_dir=b, module="T", cfg="T.cfg", workers=1, timeout=timeout) for b in batches], parallel)
    res = BatchResult()
    for bdir, (code, out, wall) in zip(batches, outs):
        with open(os.path.join(bdir, "tlc.out"), "w") as fh:
            fh.write(out)
        res.wall += wall
        st, tr = tlc_stats(out)
        res.states += st
        res.transitions += tr
        errs = tlc_errors(out)
        if errs or code not in (0,):
            res.errors.append("%s: exit %s %s" % (bdir, code, "; ".join(errs)[:800]))
        for f in tagged_tuples(out, "FAIL"):
            res.fails.append((unq(f[1]), unq(f[2]), ", ".join(f[3:])))
        for f in tagged_tuples(out, "KNOWN"):
            res.known.append((unq(f[1]), unq(f[2]), unq(f[3])))
        for f in tagged_tuples(out, "SUMMARY"):
            res.summaries[unq(f[1])] = f[2:]
    return res


CFG_TRACE_ALLOC = """SPECIFICATION TSpec
CONSTANT Reserved <- TReserved
CONSTANT Wildcards <- TWildcards
INVARIANT Progress
INVARIANT Fresh
POSTCONDITION Accepted
CHECK_DEADLOCK FALSE
"""


def run_trace_batches(wd, module, cfg_text, traces, batch_size=60, parallel=None):
    """Trace validation of hook events against a design model. traces: list of dicts (id, stmts, events).
    Returns (accepted ids, rejected [(id, matched, total, next event)], fails, states, errors)."""
    batches = []
    for i in range(0, len(traces), batch_size):
        bdir = os.path.join(wd, "t%03d" % (i // batch_size))
        os.makedirs(bdir, exist_ok=True)
        with open(os.path.join(bdir, "Data.tla"), "w") as fh:
            fh.write("---- MODULE Data ----\nEXTENDS Integers, TLC\nTraces == <<\n  " + ",\n  ".join(enc(t) for t in traces[i:i + batch_size]) + "\n>>\n====\n")
        with open(os.path.join(bdir, "T.tla"), "w") as fh:
            fh.write("---- MODULE T ----\nEXTENDS %s\n====\n" % module)
        with open(os.path.join(bdir, "T.cfg"), "w") as fh:
            fh.write(cfg_text)
        batches.append(bdir)
    outs = run_tlc_many([dict(module_dir=b, module="T", cfg="T.cfg", workers=1, timeout=1800) for b in batches], parallel)
    ok, rej, fails, states, errors = [], [], [], 0, []
    for bdir, (code, out, wall) in zip(batches, outs):
        with open(os.path.join(bdir, "tlc.out"), "w") as fh:
            fh.write(out)
        states += tlc_stats(out)[0]
        errs = tlc_errors(out)
        if errs or code != 0:
            errors.append("%s: exit %s %s" % (bdir, code, "; ".join(errs)[:600]))
        for f in tagged_tuples(out, "FAIL"):
            fails.append((unq(f[1]), unq(f[2]), ", ".join(f[3:])))
        for f in tagged_tuples(out, "TRACE"):
            tid, got, total = unq(f[1]), int(f[2]), int(f[3])
            if got == total:
                ok.append(tid)
            else:
                rej.append((tid, got, total, f[4] if len(f) > 4 else ""))
    return ok, rej, fails, states, errors


CFG_TRACE_IMPORT = """SPECIFICATION TSpec
INVARIANT Progress
INVARIANT Safe
POSTCONDITION Accepted
CHECK_DEADLOCK FALSE
"""


CFG_TRACE_LAYOUT = """SPECIFICATION TSpec
CONSTANT Ladder <- TLadder
CONSTANT MaxRetries = 3
INVARIANT Progress
INVARIANT Safe
POSTCONDITION Accepted
CHECK_DEADLOCK FALSE
"""
