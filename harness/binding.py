"""Binding demonstration (DESIGN 4.4): the trace check really constrains the compiler's output.
A fixed program is compiled by the real compiler; the intact record must be ACCEPTED (no FAIL, every
valuation judged) and every single-field corruption of the recorded blueprint must be REJECTED."""
import copy
import json

import refine
from common import Machinery, compile_all
from encode import prep_bp

SRC = ('Signal a = ("signal-A", 5);\nSignal b = ("signal-B", -3);\nSignal c = ("signal-A", 7);\n'
       'Signal t = a * b + 3;\nSignal r = (t - c) * 2;\nSignal q = a > 2 : b;\n')


def V(n):
    return {"k": "ref", "n": n}


def N(v):
    return {"k": "num", "v": v}


def B(op, l, r):
    return {"k": "bin", "op": op, "l": l, "r": r}


STMTS = [
    {"k": "in", "n": "a", "t": "signal-A", "dv": 5},
    {"k": "in", "n": "b", "t": "signal-B", "dv": -3},
    {"k": "in", "n": "c", "t": "signal-A", "dv": 7},
    {"k": "let", "ty": "Signal", "n": "t", "e": B("+", B("*", V("a"), V("b")), N(3))},
    {"k": "let", "ty": "Signal", "n": "r", "e": B("*", B("-", V("t"), V("c")), N(2))},
    {"k": "let", "ty": "Signal", "n": "q", "e": {"k": "cond", "c": B(">", V("a"), N(2)), "v": V("b")}},
]


def corruptions(bp):
    """(name, corrupted blueprint) - each changes exactly one field of the emitted JSON."""
    out = []
    ents = bp["blueprint"]["entities"]

    def clone():
        return copy.deepcopy(bp)
    for i, e in enumerate(ents):
        ac = e.get("control_behavior", {}).get("arithmetic_conditions")
        if ac and ac.get("operation", "*") == "*" and "second_signal" in ac:
            c = clone()
            c["blueprint"]["entities"][i]["control_behavior"]["arithmetic_conditions"]["operation"] = "+"
            out.append(("operation * -> +", c))
            break
    for i, e in enumerate(ents):
        ac = e.get("control_behavior", {}).get("arithmetic_conditions")
        if ac and ac.get("operation") == "-" and "second_signal_networks" in ac:
            c = clone()
            c["blueprint"]["entities"][i]["control_behavior"]["arithmetic_conditions"].pop("second_signal_networks")
            out.append(("second_signal_networks dropped", c))
            break
    for i, e in enumerate(ents):
        ac = e.get("control_behavior", {}).get("arithmetic_conditions")
        if ac and ac.get("second_constant") == 3:
            c = clone()
            c["blueprint"]["entities"][i]["control_behavior"]["arithmetic_conditions"]["second_constant"] = 4
            out.append(("constant 3 -> 4", c))
            break
    for i, e in enumerate(ents):
        dc = e.get("control_behavior", {}).get("decider_conditions")
        if dc:
            c = clone()
            c["blueprint"]["entities"][i]["control_behavior"]["decider_conditions"]["conditions"][0]["comparator"] = "<"
            out.append(("comparator > -> <", c))
            c = clone()
            c["blueprint"]["entities"][i]["control_behavior"]["decider_conditions"]["outputs"][0]["copy_count_from_input"] = False
            out.append(("copy_count_from_input -> false", c))
            break
    for i, e in enumerate(ents):
        if e["name"] == "arithmetic-combinator":
            c = clone()
            del c["blueprint"]["entities"][i]["control_behavior"]
            out.append(("control_behavior deleted", c))
            break
    c = clone()
    c["blueprint"]["wires"] = c["blueprint"]["wires"][1:]
    out.append(("first wire dropped", c))
    c = clone()
    w = c["blueprint"]["wires"]
    for k, x in enumerate(w):
        if x[1] == 3:  # an output-side wire: move it to the green output connector and green input
            w[k] = [x[0], 4, x[2], 2 if x[3] == 1 else x[3]]
            break
    out.append(("one wire recoloured", c))
    # geometry (C08): an entity moved onto another one; an entity moved far away from what it is wired to
    c = clone()
    c["blueprint"]["entities"][1]["position"] = dict(c["blueprint"]["entities"][0]["position"])
    out.append(("entity moved onto another", c))
    c = clone()
    w0 = c["blueprint"]["wires"][0]
    c["blueprint"]["entities"][w0[0] - 1]["position"] = {"x": 200.5, "y": 300.0}
    out.append(("wired entity moved 300 tiles away", c))
    c = clone()
    c["blueprint"]["wires"].append([1, 1, len(c["blueprint"]["entities"]) + 5, 1])
    out.append(("wire to a missing entity", c))
    return out


def run(wd):
    res = compile_all([{"id": "bind", "src": SRC}], nworkers=1)
    r = res["bind"]
    if r.get("status") != "ok":
        raise Machinery("binding demonstration program did not compile: %s" % r.get("message"))
    bp = r["bp"]
    items = [{"id": "intact", "stmts": STMTS, "u": 1, "bps": [prep_bp(bp)]}]
    names = {}
    for k, (name, cbp) in enumerate(corruptions(bp)):
        rid = "corrupt%d" % k
        names[rid] = name
        items.append({"id": rid, "stmts": STMTS, "u": 1, "bps": [prep_bp(cbp)]})
    br = refine.run_batches(wd + "/binding", "Refine", refine.CFG_REFINE, items, {"Strict": False, "DomCap": 216, "Seed": 0, "Clauses": ["C01_value", "C01_settles", "C20_exposed", "C08_overlap", "C08_wire_ends", "C08_wire_colour", "C08_wire_reach", "C08_proto"]}, batch_size=50)
    if br.errors:
        raise Machinery("binding demonstration: TLC failed: %s" % br.errors[:2])
    failed = {f[0] for f in br.fails}
    if "intact" in failed:
        raise Machinery("binding demonstration: the intact record is rejected: %s" % [f for f in br.fails if f[0] == "intact"][:2])
    s = br.summaries.get("intact")
    if not s or int(s[1]) < 100:
        raise Machinery("binding demonstration: intact record was not really explored: %s" % s)
    missed = [names[r] for r in names if r not in failed]
    if missed:
        raise Machinery("binding demonstration: corruptions ACCEPTED by the trace check: %s" % missed)
    if len(names) < 10:
        raise Machinery("binding demonstration: only %d corruptions could be constructed" % len(names))
    return len(names)
