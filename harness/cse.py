"""Binding of the CSE design model (tla/Cse.tla) to ir/optimizer.CSEOptimizer.

code -> spec : hook H6 events ("cse") of real compilations, judged by TraceCse.tla
spec -> code : every operation sequence of GenCse.tla (enumerated by TLC) is built as real IR nodes, run through the real
               CSEOptimizer (a /venv subprocess importing the repository under test) and judged by the same TraceCse.tla
"""
import json
import os
import subprocess

import gen
from common import REPO, Machinery, run_tlc_many, tagged_tuples, tlc_errors, tlc_stats, unq
from encode import enc

CFG_TRACE_CSE = """SPECIFICATION TSpec
INVARIANT Judge
INVARIANT Safe
POSTCONDITION Accepted
CHECK_DEADLOCK FALSE
"""

MAX_NODES = 150


def to_call(ev):
    """Raw H6 event (node ids) -> call with ids replaced by positions; `after` aligned with `before`."""
    before, after, repl = ev["before"], ev["after"], ev["repl"]
    idx = {n["id"]: i + 1 for i, n in enumerate(before)}
    uniq = [0]

    def val(v, me):
        if v["k"] == "sig":
            j = idx.get(v["src"])
            if j is None or j >= me:
                return {"k": "name", "s": "%s:%s" % (v["src"], v["t"])}
            return {"k": "sig", "src": j, "t": v["t"]}
        if v["k"] == "opaque":
            uniq[0] += 1
            return {"k": "opaque", "u": uniq[0]}
        if v["k"] == "name":
            return {"k": "name", "s": str(v["v"])}
        return {"k": "int", "v": int(v["v"])}

    def node(n, me):
        if n["kind"] == "arith":
            return {"kind": "arith", "op": n["op"], "l": val(n["l"], me), "r": val(n["r"], me), "out": n["out"]}
        if n["kind"] == "decider":
            return {"kind": "decider", "conds": [{"cmp": c["cmp"], "a": val(c["a"], me), "b": val(c["b"], me), "ct": c["ct"]} for c in n["conds"]],
                    "ov": val(n["ov"], me), "copy": bool(n["copy"]), "out": n["out"]}
        if n["kind"] == "use":
            return {"kind": "use", "vals": [val(v, me) for v in n["vals"]]}
        return {"kind": "leaf"}
    ops = [node(n, i + 1) for i, n in enumerate(before)]
    amap = {n["id"]: n for n in after}
    aft = []
    for i, n in enumerate(before):
        a = amap.get(n["id"])
        aft.append(node(a, i + 1) if a is not None else {"kind": "leaf", "gone": True})
    return {"ops": ops, "repl": [{"a": idx[a], "b": idx[b]} for a, b in sorted(repl.items()) if a in idx and b in idx], "after": aft}


def judge(wd, calls, batch_size=3000, tag="cse"):
    batches = []
    for i in range(0, len(calls), batch_size):
        bdir = os.path.join(wd, "%s%03d" % (tag, i // batch_size))
        os.makedirs(bdir, exist_ok=True)
        with open(os.path.join(bdir, "Data.tla"), "w") as fh:
            fh.write("---- MODULE Data ----\nEXTENDS Integers, TLC\nTraces == <<\n  "
                     + ",\n  ".join(enc({"id": c["id"], "call": c["call"]}) for c in calls[i:i + batch_size]) + "\n>>\n====\n")
        with open(os.path.join(bdir, "T.tla"), "w") as fh:
            fh.write("---- MODULE T ----\nEXTENDS TraceCse\n====\n")
        with open(os.path.join(bdir, "T.cfg"), "w") as fh:
            fh.write(CFG_TRACE_CSE)
        batches.append(bdir)
    outs = run_tlc_many([dict(module_dir=b, module="T", cfg="T.cfg", workers=1, timeout=2400) for b in batches], None)
    fails, div, judged, states = [], [], set(), 0
    for bdir, (code, out, wall) in zip(batches, outs):
        with open(os.path.join(bdir, "tlc.out"), "w") as fh:
            fh.write(out)
        errs = tlc_errors(out)
        if errs or code != 0:
            raise Machinery("TraceCse failed to run in %s: exit %s %s" % (bdir, code, "; ".join(errs)[:600]))
        states += tlc_stats(out)[0]
        for f in tagged_tuples(out, "FAIL"):
            fails.append((unq(f[1]), unq(f[2]), ", ".join(f[3:])))
        for f in tagged_tuples(out, "DIVERGE"):
            div.append(unq(f[1]))
        for f in tagged_tuples(out, "TRACE"):
            if int(f[2]) == 1:
                judged.add(unq(f[1]))
    missing = [c["id"] for c in calls if c["id"] not in judged]
    if missing:
        raise Machinery("TraceCse: %d of %d calls were not run to the end by the model (first: %s)" % (len(missing), len(calls), missing[0]))
    return fails, div, len(judged), states


def validate_events(ctx, compiled, progs):
    calls, raw, skipped, merged = [], {}, 0, 0
    for p in progs:
        for suf, r in (compiled.get(p["id"]) or {}).items():
            if r.get("status") != "ok":
                continue
            k = 0
            for e in r.get("events", []):
                if e.get("ev") != "cse":
                    continue
                k += 1
                if len(e["before"]) > MAX_NODES:
                    skipped += 1
                    continue
                cid = "%s%s/cse%d" % (p["id"], suf, k)
                calls.append({"id": cid, "call": to_call(e)})
                merged += 1 if e["repl"] else 0
                raw[cid] = (p, suf, e)
    ctx.add("cse_calls_recorded", len(calls) + skipped)
    ctx.add("cse_calls_too_large_not_judged", skipped)
    ctx.add("cse_calls_with_merges", merged)
    if not calls:
        raise Machinery("no CSE pass was recorded (hook H6 missing, or tracing not enabled for optimised builds?)")
    fails, div, judged, states = judge(ctx.wd, calls, batch_size=40, tag="cset")
    ctx.add("cse_calls_judged", judged)
    ctx.add("cse_model_divergences(info)", len(div))
    ctx.add("states", states)
    for cid, clause, info in fails:
        p, suf, e = raw[cid]
        ctx.violation(cid, clause, info, {"kind": "cse", "src": p.get("src"), "variant": suf, "event": e})
    return len(fails)


_RUNNER = r'''
import json, sys
from dsl_compiler.src.ir.nodes import (IRArith, IRConst, IRDecider, DeciderCondition, SignalRef, IRMemWrite, IRLatchWrite,
                                       IREntityPropWrite)
from dsl_compiler.src.ir.optimizer import CSEOptimizer
inst = json.load(open(sys.argv[1]))
TY = {"A": "signal-A", "B": "signal-B", "X": "signal-X"}
def val(v):
    if v["k"] == "int":
        return int(v["v"])
    return SignalRef(TY.get(v["t"], v["t"]), "n%d" % v["src"])
def ser(v):
    if isinstance(v, bool) or isinstance(v, int):
        return {"k": "int", "v": int(v)}
    if isinstance(v, SignalRef):
        return {"k": "sig", "src": int(v.source_id[1:]), "t": {b: a for a, b in TY.items()}.get(v.signal_type, v.signal_type)}
    return {"k": "opaque", "u": 1}
def nodes_out(ops):
    out = {}
    for op in ops:
        i = int(op.node_id[1:])
        ot = getattr(op, "output_type", None)
        t = {b: a for a, b in TY.items()}.get(ot, ot)
        if isinstance(op, IRArith):
            out[i] = {"kind": "arith", "op": op.op, "l": ser(op.left), "r": ser(op.right), "out": t}
        elif isinstance(op, IRDecider):
            if op.conditions:
                conds = [{"cmp": c.comparator, "a": ser(c.first_operand), "b": ser(c.second_operand), "ct": c.compare_type} for c in op.conditions]
            else:
                conds = [{"cmp": op.test_op, "a": ser(op.left), "b": ser(op.right), "ct": "or"}]
            out[i] = {"kind": "decider", "conds": conds, "ov": ser(op.output_value), "copy": bool(op.copy_count_from_input), "out": t}
        elif isinstance(op, IRMemWrite):
            out[i] = {"kind": "use", "vals": [ser(op.data_signal), ser(op.write_enable)]}
        elif isinstance(op, IRLatchWrite):
            out[i] = {"kind": "use", "vals": [ser(op.value), ser(op.set_signal), ser(op.reset_signal)]}
        elif isinstance(op, IREntityPropWrite):
            out[i] = {"kind": "use", "vals": [ser(op.value)]}
        else:
            out[i] = {"kind": "leaf"}
    return out
res = []
for it in inst:
    ops = []
    for i, n in enumerate(it["ops"], 1):
        if n["kind"] == "leaf":
            c = IRConst("n%d" % i, "signal-A" if i == 1 else "signal-B")
            c.value = i
            ops.append(c)
        elif n["kind"] == "use":
            vs = [val(v) for v in n["vals"]]
            if len(vs) == 1:
                e = IREntityPropWrite("e%d" % i, "enable", vs[0])
            elif len(vs) == 2:
                e = IRMemWrite("m%d" % i, vs[0], vs[1])
            else:
                e = IRLatchWrite("l%d" % i, vs[0], vs[1], vs[2], "sr_latch")
            e.node_id = "n%d" % i
            ops.append(e)
        elif n["kind"] == "arith":
            a = IRArith("n%d" % i, TY[n["out"]])
            a.op, a.left, a.right = n["op"], val(n["l"]), val(n["r"])
            ops.append(a)
        else:
            d = IRDecider("n%d" % i, TY[n["out"]])
            if len(n["conds"]) == 1:
                d.test_op, d.left, d.right = n["conds"][0]["cmp"], val(n["conds"][0]["a"]), val(n["conds"][0]["b"])
            else:
                d.conditions = [DeciderCondition(comparator=c["cmp"], first_operand=val(c["a"]), second_operand=val(c["b"]), compare_type=c["ct"]) for c in n["conds"]]
            d.output_value, d.copy_count_from_input = val(n["ov"]), bool(n["copy"])
            ops.append(d)
    try:
        opt = CSEOptimizer()
        kept = opt.optimize(ops)
        after = nodes_out(kept)
        res.append({"repl": [{"a": int(a[1:]), "b": int(b[1:])} for a, b in sorted(opt.replacements.items())],
                    "after": [after.get(i, {"kind": "leaf", "gone": True}) for i in range(1, len(ops) + 1)]})
    except Exception as exc:
        res.append({"error": "%s: %s" % (type(exc).__name__, exc)})
json.dump(res, open(sys.argv[2], "w"))
'''


def run_real(wd, insts):
    fin, fout, script = os.path.join(wd, "cse-in.json"), os.path.join(wd, "cse-out.json"), os.path.join(wd, "cse-run.py")
    with open(fin, "w") as fh:
        json.dump(insts, fh)
    with open(script, "w") as fh:
        fh.write(_RUNNER)
    env = dict(os.environ, PYTHONPATH=REPO, PYTHONHASHSEED="0")
    env.pop("FACTOMPILER_VERIF_TRACE", None)
    env.pop("FACTOMPILER_VERIF", None)
    r = subprocess.run(["/venv/bin/python", script, fin, fout], env=env, capture_output=True, text=True, timeout=1800, cwd=wd)
    if r.returncode != 0 or not os.path.exists(fout):
        raise Machinery("running CSEOptimizer on generated instances failed: " + (r.stderr or r.stdout)[-1500:])
    with open(fout) as fh:
        return json.load(fh)


def validate_instances(ctx, quick=False):
    insts = gen.generate("GenCse", deps=("CseU",), env={"CSE_SCALE": "quick" if quick else "full"}, timeout=1800)
    ctx.cov["cse_instance_universe"] = len(insts)
    outs = run_real(ctx.wd, insts)
    calls, raw = [], {}
    for i, (it, o) in enumerate(zip(insts, outs)):
        cid = "gk-%s-%d" % (it["grp"], i)
        if "error" in o:
            ctx.violation(cid, "CSE_partition", "CSEOptimizer raised on a well-formed instance: " + o["error"], {"kind": "cse-instance", "instance": it})
            continue
        calls.append({"id": cid, "call": {"ops": it["ops"], "repl": o["repl"], "after": o["after"]}})
        raw[cid] = it
    fails, div, judged, states = judge(ctx.wd, calls, batch_size=3000, tag="csei")
    ctx.add("cse_instances_judged", judged)
    ctx.add("cse_instances_merged_by_code", sum(1 for c in calls if c["call"]["repl"]))
    ctx.add("cse_instance_divergences(info)", len(div))
    ctx.add("states", states)
    ctx.add("evaluations", judged)
    for cid, clause, info in fails:
        ctx.violation(cid, clause, info, {"kind": "cse-instance", "instance": raw[cid]})
    return len(fails)


def replay_cse(ctx, rp):
    pl = rp["payload"]
    if pl["kind"] == "cse-instance":
        it = pl["instance"]
        o = run_real(ctx.wd, [it])[0]
        if "error" in o:
            print("replay: CSEOptimizer raises: " + o["error"])
            return 1
        call = {"ops": it["ops"], "repl": o["repl"], "after": o["after"]}
    else:
        # a recorded pass of a real compilation: recompile the program on the current tree and judge its CSE passes again
        from props import compile_records
        p = {"id": rp["record"].split("/")[0].split("#")[0], "src": pl["src"], "job": {"trace": True, "tracedir": ctx.wd}}
        rs = compile_records(ctx, [p], None, [("", {})])[p["id"]][""]
        evs = [e for e in rs.get("events", []) if e.get("ev") == "cse"]
        if not evs:
            print("replay: the program no longer compiles / records no CSE pass: %s" % rs.get("message"))
            return 0
        call = to_call(evs[0])
    fails, div, judged, states = judge(ctx.wd, [{"id": rp["record"], "call": call}], tag="cser")
    for cid, clause, info in fails:
        print("  clause=%s %s" % (clause, info[:1500]))
    if fails:
        print("VIOLATION property=%s replay=%s" % (ctx.pid, rp.get("path", "")))
        return 1
    print("replay: the optimizer's result on this input is now sound")
    return 0
