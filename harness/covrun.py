"""Development tool (not a check): branch coverage of the compiler under the programs of the closed corpora.

  python3-vt harness/covrun.py [--repo /tmp/wt-clean] [--jobs 8] [--limit N]

Every program of every generator corpus (current TLA+ sources; twins, file sets and both optimisation settings included) is
compiled in /venv subprocesses running coverage.py (branch coverage of dsl_compiler/src). The report lists, per source file of
the compiler, the lines and branches that NO corpus program reaches: a change there cannot be noticed by any check, so these
are the places where generator families are missing a dimension (DESIGN 14.10).
"""
import json
import os
import subprocess
import sys
import tempfile

sys.path.insert(0, os.path.dirname(os.path.abspath(__file__)))
import gen  # noqa: E402

VERIF = os.path.dirname(os.path.dirname(os.path.abspath(__file__)))

RUNNER = r'''
import json, os, sys, tempfile
import coverage
repo, jobs_file, data_file = sys.argv[1], sys.argv[2], sys.argv[3]
cov = coverage.Coverage(branch=True, source=[os.path.join(repo, "dsl_compiler", "src")], data_file=data_file)
cov.start()
from dsl_compiler.cli import compile_dsl_source
n = 0
for job in json.load(open(jobs_file)):
    d = tempfile.mkdtemp(prefix="cov")
    try:
        for name, text in (job.get("files") or {}).items():
            with open(os.path.join(d, name), "w") as fh:
                fh.write(text)
        old = os.getcwd()
        os.chdir(d)
        try:
            kw = dict(use_json=True, optimize=job.get("optimize", True))
            if job.get("poles"):
                kw["power_pole_type"] = job["poles"]
            if job.get("files"):
                kw["source_name"] = os.path.join(d, "main.facto")
            try:
                compile_dsl_source(job["src"], **kw)
            except TypeError:
                compile_dsl_source(job["src"], use_json=True)
        except BaseException:
            pass
        finally:
            os.chdir(old)
        n += 1
    finally:
        import shutil
        shutil.rmtree(d, ignore_errors=True)
cov.stop()
cov.save()
print(n)
'''


def corpus():
    jobs, seen = [], set()

    def add(src, **kw):
        key = json.dumps([src, kw], sort_keys=True)
        if src and key not in seen:
            seen.add(key)
            jobs.append(dict(src=src, **kw))
    for mod in ("GenScalar", "GenBundle", "GenMem", "GenSelf", "GenEntity", "GenFL", "GenImplicit", "GenPair", "GenIll", "GenLayout", "GenFold"):
        try:
            progs = gen.generate(mod)
        except Exception as exc:  # noqa: BLE001
            print("skipping %s: %s" % (mod, exc))
            continue
        if mod == "GenFold":
            progs = progs[::6]
        for p in progs:
            add(p.get("src"))
            add(p.get("src"), optimize=False)
            add(p.get("src2"))
        if mod in ("GenEntity", "GenLayout"):
            for p in progs[::3]:
                add(p.get("src"), poles="medium")
    try:
        for p in gen.generate("GenImport"):
            files = p.get("files")
            if isinstance(files, dict):
                add(p["src"], files=files)
    except Exception as exc:  # noqa: BLE001
        print("skipping GenImport: %s" % exc)
    return jobs


def main():
    repo = "/repo"
    njobs, limit = 8, None
    a = sys.argv[1:]
    if "--repo" in a:
        repo = a[a.index("--repo") + 1]
    if "--jobs" in a:
        njobs = int(a[a.index("--jobs") + 1])
    if "--limit" in a:
        limit = int(a[a.index("--limit") + 1])
    jobs = corpus()
    if limit:
        jobs = jobs[:limit]
    print("%d compilations" % len(jobs))
    wd = tempfile.mkdtemp(prefix="covrun")
    with open(os.path.join(wd, "runner.py"), "w") as fh:
        fh.write(RUNNER)
    procs = []
    env = dict(os.environ, PYTHONPATH=repo, PYTHONHASHSEED="0")
    env.pop("FACTOMPILER_VERIF", None)
    for k in range(njobs):
        jf = os.path.join(wd, "jobs%d.json" % k)
        with open(jf, "w") as fh:
            json.dump(jobs[k::njobs], fh)
        procs.append(subprocess.Popen(["/venv/bin/python", os.path.join(wd, "runner.py"), repo, jf, os.path.join(wd, ".coverage.%d" % k)],
                                      env=env, cwd=wd, stdout=subprocess.PIPE, stderr=subprocess.PIPE, text=True))
    for p in procs:
        out, err = p.communicate()
        if p.returncode != 0:
            print("runner failed:", err[-800:])
    subprocess.run(["/venv/bin/python", "-m", "coverage", "combine", "--data-file", os.path.join(wd, ".coverage")] +
                   [os.path.join(wd, ".coverage.%d" % k) for k in range(njobs)], cwd=wd, env=env, capture_output=True, text=True)
    out = os.path.join(VERIF, "work", "coverage.json")
    os.makedirs(os.path.dirname(out), exist_ok=True)
    r = subprocess.run(["/venv/bin/python", "-m", "coverage", "json", "--data-file", os.path.join(wd, ".coverage"), "-o", out], cwd=wd, env=env,
                       capture_output=True, text=True)
    print(r.stdout[-300:], r.stderr[-300:])
    rep = json.load(open(out))
    rows = []
    for f, d in rep["files"].items():
        if "/tests/" in f:
            continue
        s = d["summary"]
        rows.append((s.get("missing_lines", 0), f.replace(repo + "/", ""), s["percent_covered"], s.get("missing_branches", 0)))
    for miss, f, pc, mb in sorted(rows, reverse=True)[:40]:
        print("%5d missing lines %5d missing branches %5.1f%%  %s" % (miss, mb, pc, f))
    print("full report: " + out)


if __name__ == "__main__":
    main()
