"""Development helper for the seeded-change campaign (DESIGN 11b / 14.6).

  python3-vt harness/seedtest.py <seed id> [check ids ...] [--tier quick|thorough] [--all]

Applies /verif/seeded/<seed id>/patch.diff to /repo (git apply), runs the named checks (default: the check of the
property the seed targets, from meta.json) and ALWAYS restores /repo (git checkout -- .) afterwards.  Prints one line per
check: CAUGHT (exit 1 with VIOLATION lines), MISSED (exit 0) or BROKEN (exit 2).  Never run two of these at once.
"""
import json
import os
import subprocess
import sys

VERIF = os.path.dirname(os.path.dirname(os.path.abspath(__file__)))


def main():
    args = [a for a in sys.argv[1:] if not a.startswith("--")]
    tier = "quick"
    if "--tier" in sys.argv:
        tier = sys.argv[sys.argv.index("--tier") + 1]
        args = [a for a in args if a != tier]
    seed = args[0]
    d = os.path.join(VERIF, "seeded", seed)
    meta = json.load(open(os.path.join(d, "meta.json")))
    checks = args[1:] or [meta["property"]]
    if "--all" in sys.argv:
        checks = ["C%02d" % i for i in range(1, 21)]
    st = subprocess.run(["git", "-C", "/repo", "status", "--porcelain"], capture_output=True, text=True).stdout.strip()
    if st:
        print("refusing: /repo has uncommitted changes:\n" + st)
        return 2
    r = subprocess.run(["git", "-C", "/repo", "apply", os.path.join(d, "patch.diff")], capture_output=True, text=True)
    if r.returncode != 0:
        print("patch does not apply: " + r.stderr)
        return 2
    try:
        for c in checks:
            p = subprocess.run([os.path.join(VERIF, "check"), c, "--tier", tier], capture_output=True, text=True)
            viol = [l for l in p.stdout.splitlines() if l.startswith("VIOLATION")]
            clauses = sorted({l.strip().split()[0] for l in p.stdout.splitlines() if l.strip().startswith("clause=")})
            verdict = {0: "MISSED", 1: "CAUGHT", 2: "BROKEN"}.get(p.returncode, "exit %d" % p.returncode)
            print("%s %s tier=%s: %s (%d VIOLATION lines; %s)" % (seed, c, tier, verdict, len(viol), ", ".join(clauses)[:200]))
            if p.returncode == 2:
                print("   " + (p.stdout.strip().splitlines() or ["?"])[-1][:300])
    finally:
        subprocess.run(["git", "-C", "/repo", "checkout", "--", "."], check=True)
        subprocess.run(["git", "-C", "/repo", "clean", "-fdq", "--", "dsl_compiler", "lib"], check=False)
    return 0


if __name__ == "__main__":
    sys.exit(main())
