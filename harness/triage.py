"""dev helper: summarise replay files of a property"""
import json, os, sys
d = os.path.join(os.path.dirname(os.path.dirname(os.path.abspath(__file__))), "replays", sys.argv[1])
for f in sorted(os.listdir(d)):
    r = json.load(open(os.path.join(d, f)))
    src = r["payload"]["src"].strip().splitlines()
    tail = [l for l in src if not l.startswith('Signal a = ("signal-A"') and not l.startswith('Signal b = ("signal-B"') and not l.startswith('Signal s = ("signal-S"') and not l.startswith('Signal c = ("signal-C"')]
    print(r["clause"], "|", " ; ".join(tail), "|", r["info"][:int(sys.argv[2]) if len(sys.argv) > 2 else 160])
