"""Compile worker. Runs under /venv/bin/python with PYTHONPATH=<repo> (the CURRENT working tree)
and FACTOMPILER_VERIF=1.  Reads JSON lines on stdin, writes JSON lines on stdout:

  in : {"id": ..., "src": "...", "optimize": true, "poles": null, "name": null, "layout": {...}|null,
        "trace": bool, "retries": 3, "source_name": "<string>", "cwd": null}
  out: {"id": ..., "status": "ok"|"rejected"|"crashed", "bp": {...blueprint JSON as emitted...},
        "message": "...", "exc": "...", "t": seconds, "events": [...]}

The blueprint is what the compiler's public entry point `compile_dsl_source(..., use_json=True)`
returns (the same code path the CLI prints), decoded with the standard library.
"""
import io
import json
import logging
import os
import sys
import time
import traceback

logging.disable(logging.CRITICAL)
os.environ.setdefault("FACTOMPILER_VERIF", "1")

import warnings  # noqa: E402

warnings.filterwarnings("ignore")

from dsl_compiler.cli import compile_dsl_source  # noqa: E402

try:
    from dsl_compiler.src.common import verif_hooks  # noqa: E402
except Exception:  # hooks absent (e.g. a scratch copy without them)
    verif_hooks = None

DET = {"det": True, "seed": 7, "dtime": 0.5, "workers": 1}


def run(job):
    t0 = time.time()
    layout = job.get("layout")
    if layout is None:
        layout = DET
    os.environ["FACTOMPILER_VERIF_LAYOUT"] = json.dumps(layout)
    trace_path = None
    if job.get("trace"):
        trace_path = "%s/trace-%d-%s.ndjson" % (job.get("tracedir", "/tmp"), os.getpid(), str(job["id"]).replace("/", "_"))
        if os.path.exists(trace_path):
            os.unlink(trace_path)
        os.environ["FACTOMPILER_VERIF_TRACE"] = trace_path
    else:
        os.environ.pop("FACTOMPILER_VERIF_TRACE", None)
    if verif_hooks is not None and hasattr(verif_hooks, "reset"):
        verif_hooks.reset()
    out = {"id": job["id"]}
    pre = ([job["pre_src"]] if job.get("pre_src") else []) + list(job.get("pre_srcs") or [])
    for ps in pre:   # compile other programs first, in this very process (C19: a later in-process compile)
        try:
            compile_dsl_source(ps, use_json=True)
        except BaseException:  # noqa: BLE001
            pass
    if pre:
        if verif_hooks is not None and hasattr(verif_hooks, "reset"):
            verif_hooks.reset()
    old_cwd = os.getcwd()
    if job.get("edit_first"):   # C17 process history: an earlier edition of the imported files is compiled first in this process
        try:
            for path, (before, _after) in job["edit_first"].items():
                with open(path, "w") as fh:
                    fh.write(before)
            if job.get("cwd"):
                os.chdir(job["cwd"])
            compile_dsl_source(job["src"], source_name=job.get("source_name", "<string>"), use_json=True)
        except BaseException:  # noqa: BLE001
            pass
        finally:
            os.chdir(old_cwd)
            for path, (_before, after) in job["edit_first"].items():
                with open(path, "w") as fh:
                    fh.write(after)
        if verif_hooks is not None and hasattr(verif_hooks, "reset"):
            verif_hooks.reset()
    try:
        if job.get("cwd"):
            os.chdir(job["cwd"])
        ok, res, diags = compile_dsl_source(
            job["src"],
            source_name=job.get("source_name", "<string>"),
            program_name=job.get("name"),
            optimize=job.get("optimize", True),
            power_pole_type=job.get("poles"),
            use_json=not job.get("string", False),
            max_layout_retries=job.get("retries", 3),
        )
        if ok:
            out["status"] = "ok"
            if job.get("string"):
                out["text"] = res
            else:
                out["bp"] = json.loads(res)
        else:
            out["status"] = "rejected"
            out["message"] = str(res)
        out["diags"] = [str(d) for d in (diags or [])][:20]
    except BaseException as ex:  # noqa: BLE001
        if isinstance(ex, (KeyboardInterrupt,)):
            raise
        name = type(ex).__name__
        mod = type(ex).__module__ or ""
        # A refusal is any exception that carries a message about the program: diagnostics.error() with raise_errors=True
        # raises RuntimeError("[stage] message"), the parser SyntaxError, resolvers ValueError / FileNotFoundError.
        # Exceptions that only ever mean "the compiler itself broke" are crashes.
        msg = str(ex)
        internal = name in ("AttributeError", "KeyError", "TypeError", "IndexError", "AssertionError", "RecursionError", "NameError",
                            "UnboundLocalError", "ZeroDivisionError", "NotImplementedError", "MemoryError", "OverflowError")
        deliberate = not internal and bool(msg.strip())
        out["status"] = "rejected" if deliberate else "crashed"
        out["message"] = str(ex)[:2000]
        out["exc"] = "%s.%s" % (mod, name)
        if not deliberate:
            out["tb"] = traceback.format_exc()[-3000:]
    finally:
        os.chdir(old_cwd)
    if trace_path and os.path.exists(trace_path):
        with open(trace_path) as fh:
            out["events"] = [json.loads(l) for l in fh if l.strip()]
        os.unlink(trace_path)
    out["t"] = round(time.time() - t0, 3)
    return out


def main():
    real_stdout = sys.stdout
    sys.stdout = io.StringIO()  # anything the compiler prints must not corrupt the protocol
    real_stdout.write(json.dumps({"ready": True, "pid": os.getpid()}) + "\n")
    real_stdout.flush()
    for line in sys.stdin:
        line = line.strip()
        if not line:
            continue
        job = json.loads(line)
        sys.stdout = io.StringIO()
        res = run(job)
        printed = sys.stdout.getvalue()
        if printed:
            res["printed"] = printed[:2000]
        real_stdout.write(json.dumps(res) + "\n")
        real_stdout.flush()


if __name__ == "__main__":
    main()
