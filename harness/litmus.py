"""Circuit litmus tests: hand-built blueprints in the raw 2.0 JSON shape, with the tick-by-tick values
documented for the game. They pin the trusted transcription of the circuit rules (DESIGN 3.2, 5.3)."""
import os

from common import Machinery, run_tlc, tagged_tuples, tlc_errors
from encode import enc


def V(n):
    return {"type": "virtual", "name": n}


def const(sigs, **kw):
    e = {"name": "constant-combinator", "position": {"x": 0.5, "y": 0.5},
         "control_behavior": {"sections": {"sections": [{"index": 1, "filters": [
             {"index": i + 1, "name": n, "count": c, "type": "virtual", "quality": "normal", "comparator": "="}
             for i, (n, c) in enumerate(sigs)]}]}}}
    e.update(kw)
    return e


def arith(**ac):
    return {"name": "arithmetic-combinator", "position": {"x": 0.5, "y": 0.5}, "control_behavior": {"arithmetic_conditions": ac}}


def decider(conds, outs):
    return {"name": "decider-combinator", "position": {"x": 0.5, "y": 0.5},
            "control_behavior": {"decider_conditions": {"conditions": conds, "outputs": outs}}}


def cases():
    bps, exp = [], []

    def add(ents, wires, checks):
        for i, e in enumerate(ents):
            e["entity_number"] = i + 1
        bps.append({"entities": ents, "wires": wires, "extra": []})
        u = len(bps)
        for e, c, sig, vals in checks:
            exp.append({"u": u, "e": e, "c": c, "sig": sig, "vals": vals})

    # 1. one tick of latency per combinator: A=3 -> (A*2 -> B) -> (B+1 -> C)
    add([const([("signal-A", 3)]),
         arith(first_signal=V("signal-A"), second_constant=2, operation="*", output_signal=V("signal-B")),
         arith(first_signal=V("signal-B"), second_constant=1, operation="+", output_signal=V("signal-C"))],
        [[1, 1, 2, 1], [2, 3, 3, 1]],
        [(2, 3, "signal-B", [0, 6, 6, 6]), (3, 3, "signal-C", [0, 1, 7, 7])])
    # 2. clock: A + 1 -> A with the output wired back to the input counts one per tick
    add([arith(first_signal=V("signal-A"), second_constant=1, operation="+", output_signal=V("signal-A"))],
        [[1, 3, 1, 1]],
        [(1, 3, "signal-A", [0, 1, 2, 3, 4, 5])])
    # 3. each-filter: each > 0 -> each (input count) passes exactly the positive signals
    add([const([("signal-A", 5), ("signal-B", -2), ("signal-C", 9)]),
         decider([{"first_signal": V("signal-each"), "comparator": ">", "constant": 0}],
                 [{"signal": V("signal-each")}])],
        [[1, 1, 2, 1]],
        [(2, 3, "signal-A", [0, 5, 5]), (2, 3, "signal-B", [0, 0, 0]), (2, 3, "signal-C", [0, 9, 9])])
    # 4. everything is true, anything is false on an empty network
    add([decider([{"first_signal": V("signal-everything"), "comparator": ">", "constant": 0}],
                 [{"signal": V("signal-X"), "copy_count_from_input": False}]),
         decider([{"first_signal": V("signal-anything"), "comparator": ">", "constant": 0}],
                 [{"signal": V("signal-Y"), "copy_count_from_input": False}])],
        [],
        [(1, 3, "signal-X", [0, 1, 1]), (2, 3, "signal-Y", [0, 0, 0])])
    # 5. red/green separation and per-operand network selection: A=1 on red, A=10 on green
    add([const([("signal-A", 1)]), const([("signal-A", 10)]),
         arith(first_signal=V("signal-A"), first_signal_networks={"green": False}, second_signal=V("signal-A"),
               second_signal_networks={"red": False}, operation="-", output_signal=V("signal-B")),
         arith(first_signal=V("signal-A"), second_constant=0, operation="+", output_signal=V("signal-C"))],
        [[1, 1, 3, 1], [2, 2, 3, 2], [1, 1, 4, 1], [2, 2, 4, 2]],
        [(3, 3, "signal-B", [0, -9, -9]), (4, 3, "signal-C", [0, 11, 11])])
    # 6. textbook SR latch (2.0 multi-condition): S > 0 OR (L > 0 AND R = 0) -> L = 1, output fed back; S pulses via clock
    #    clock T counts 0,1,2,...; S = (T = 2) for one tick; the latch must switch on and stay on
    add([arith(first_signal=V("signal-T"), second_constant=1, operation="+", output_signal=V("signal-T")),
         decider([{"first_signal": V("signal-T"), "comparator": "=", "constant": 2}],
                 [{"signal": V("signal-S"), "copy_count_from_input": False}]),
         decider([{"first_signal": V("signal-S"), "comparator": ">", "constant": 0},
                  {"first_signal": V("signal-L"), "comparator": ">", "constant": 0, "compare_type": "or"},
                  {"first_signal": V("signal-R"), "comparator": "=", "constant": 0, "compare_type": "and"}],
                 [{"signal": V("signal-L"), "copy_count_from_input": False}])],
        [[1, 3, 1, 1], [1, 3, 2, 1], [2, 3, 3, 1], [3, 3, 3, 1]],
        [(1, 3, "signal-T", [0, 1, 2, 3, 4, 5, 6]), (2, 3, "signal-S", [0, 0, 0, 1, 0, 0, 0]),
         (3, 3, "signal-L", [0, 0, 0, 0, 1, 1, 1])])
    # 7. AND binds tighter than OR, first row's connective ignored: A>0 OR B>0 AND C>0 with A=0,B=1,C=0 is false; with A=1 true
    add([const([("signal-B", 1)]),
         decider([{"first_signal": V("signal-A"), "comparator": ">", "constant": 0, "compare_type": "and"},
                  {"first_signal": V("signal-B"), "comparator": ">", "constant": 0, "compare_type": "or"},
                  {"first_signal": V("signal-C"), "comparator": ">", "constant": 0, "compare_type": "and"}],
                 [{"signal": V("signal-X"), "copy_count_from_input": False}]),
         const([("signal-A", 1), ("signal-B", 1)]),
         decider([{"first_signal": V("signal-A"), "comparator": ">", "constant": 0},
                  {"first_signal": V("signal-B"), "comparator": ">", "constant": 0, "compare_type": "or"},
                  {"first_signal": V("signal-C"), "comparator": ">", "constant": 0, "compare_type": "and"}],
                 [{"signal": V("signal-X"), "copy_count_from_input": False}])],
        [[1, 1, 2, 1], [3, 1, 4, 1]],
        [(2, 3, "signal-X", [0, 0, 0]), (4, 3, "signal-X", [0, 1, 1])])
    # 8. each * each -> single signal sums the per-signal results; each + constant -> each keeps zero signals absent
    add([const([("signal-A", 3), ("signal-B", 4)]),
         arith(first_signal=V("signal-each"), second_signal=V("signal-each"), operation="*", output_signal=V("signal-S")),
         arith(first_signal=V("signal-each"), second_constant=10, operation="+", output_signal=V("signal-each"))],
        [[1, 1, 2, 1], [1, 1, 3, 1]],
        [(2, 3, "signal-S", [0, 25, 25]), (3, 3, "signal-A", [0, 13, 13]), (3, 3, "signal-B", [0, 14, 14]), (3, 3, "signal-S", [0, 0, 0])])
    # 9. defaults: operation "*", comparator "<", copy_count_from_input true, output constant 1; wrap-around
    add([const([("signal-A", 65536)]),
         arith(first_signal=V("signal-A"), second_signal=V("signal-A"), output_signal=V("signal-B")),
         decider([{"first_signal": V("signal-B"), "constant": 1}], [{"signal": V("signal-A")}]),
         arith(first_signal=V("signal-A"), second_constant=32767, output_signal=V("signal-C"))],
        [[1, 1, 2, 1], [2, 3, 3, 1], [1, 2, 3, 2], [1, 1, 4, 1]],
        [(2, 3, "signal-B", [0, 0, 0]), (3, 3, "signal-A", [0, 65536, 65536]), (4, 3, "signal-C", [0, 2147418112, 2147418112])])
    # 10. everything -> everything copies all non-zero inputs; constant output gives 1 per signal
    add([const([("signal-A", 5), ("signal-B", 7)]),
         decider([{"first_signal": V("signal-everything"), "comparator": ">", "constant": 4}],
                 [{"signal": V("signal-everything")}]),
         decider([{"first_signal": V("signal-anything"), "comparator": ">", "constant": 6}],
                 [{"signal": V("signal-everything"), "copy_count_from_input": False}])],
        [[1, 1, 2, 1], [1, 1, 3, 1]],
        [(2, 3, "signal-A", [0, 5]), (2, 3, "signal-B", [0, 7]), (3, 3, "signal-A", [0, 1]), (3, 3, "signal-B", [0, 1])])
    return bps, exp


def run(wd):
    bps, exp = cases()
    d = os.path.join(wd, "litmus")
    os.makedirs(d)
    with open(os.path.join(d, "Data.tla"), "w") as fh:
        fh.write("---- MODULE Data ----\nEXTENDS Integers\nBPs == %s\nExpect == %s\n====\n" % (enc(bps), enc(exp)))
    with open(os.path.join(d, "T.tla"), "w") as fh:
        fh.write("---- MODULE T ----\nEXTENDS Litmus\n====\n")
    with open(os.path.join(d, "T.cfg"), "w") as fh:
        fh.write("INIT LInit\nNEXT LNext\n")
    code, out, wall = run_tlc(d, "T", cfg="T.cfg", timeout=300)
    t = tagged_tuples(out, "LITMUS")
    if not t or tlc_errors(out):
        raise Machinery("litmus run failed: " + out[-2500:])
    if t[0][2].strip() != "{}":
        raise Machinery("Circuit.tla does not reproduce litmus traces: cases %s got %s" % (t[0][2], t[0][3]))
    return len(exp)
