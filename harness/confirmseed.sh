#!/bin/sh
# usage: confirmseed.sh <seed dir name> [nosuite]
# Confirms a seeded change in a scratch worktree of /repo (never in /repo itself): the demo must exit 0 on the unchanged code and
# non-zero with the patch, and the repository's own suite must pass with the patch (apart from the 2 always-failing test_cli cases).
S=$1; D=/verif/seeded/$S; W=/tmp/wt-seed-$$
git -C /repo worktree add --detach $W HEAD -q || exit 2
cd $W
PYTHONPATH=$W /venv/bin/python $D/demo.py > /tmp/confirm-$S-orig.log 2>&1; o=$?
git apply $D/patch.diff || { echo "$S: patch does not apply"; git -C /repo worktree remove --force $W; exit 2; }
PYTHONPATH=$W /venv/bin/python $D/demo.py > /tmp/confirm-$S-changed.log 2>&1; c=$?
suite="skipped"
if [ "$2" != "nosuite" ]; then
  suite=$(cd $W && PYTHONPATH=$W /venv/bin/python -m pytest -q -p no:cacheprovider --timeout=900 -n ${NPROC:-10} 2>&1 | tail -n 1)
fi
echo "$S: demo original=$o changed=$c suite: $suite"
cd /; git -C /repo worktree remove --force $W
