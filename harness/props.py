"""Per-property decision procedures (DESIGN section 7)."""
import hashlib
import json
import os
import re

import gen
import refine
from common import Machinery, compile_all
from encode import prep_bp

REGISTRY = {}

# the clauses each property judges (Refine.tla evaluates all of them; only these can FAIL in a run of that property)
CLAUSES = {
    "C01": ["C01_value", "C01_settles"],
    "C02": ["C02_bag", "C01_value", "C01_settles"],
    "C03": ["C03_value", "C01_settles", "C20_exposed"],
    "C04": ["C04_iterates", "C04_reader", "C20_exposed"],
    "C05": ["C05_value", "C01_settles", "C20_exposed"],
    "C06": ["C06_entity", "C06_condition", "C06_enable", "C01_value", "C02_bag", "C01_settles"],
    "C07": ["C07_decodes", "C07_form", "C07_missing_entity", "C07_entity_kind", "C07_arithmetic", "C07_decider", "C07_constant", "C07_condition", "C07_user_property",
            "C07_wires", "C07_version", "C07_forms_differ", "C01_value", "C02_bag", "C03_value", "C06_entity", "C06_condition", "C06_enable", "C01_settles"],
    "C08": ["C08_proto", "C08_overlap", "C08_wire_ends", "C08_wire_colour", "C08_wire_reach", "C01_value", "C02_bag", "C03_value", "C06_entity",
            "C06_condition", "C06_enable", "C01_settles", "C08_layout_trace", "C08_layout_invariant", "C08_outcome"],
    "C09": ["C09_bag", "C09_props", "C09_extra"],
    "C10": ["R2_equal", "R2_exposed", "C01_settles"],
    "C11": ["C01_value", "R2_equal", "C11_range", "C01_settles"],
    "C12": ["R2_equal", "R2_exposed", "C01_settles", "C01_value", "C02_bag", "C06_entity", "C06_condition", "C06_enable", "C12_isolated"],
    "C13": ["R2_equal", "R2_exposed", "C01_value", "C02_bag", "C03_value", "C13_reserved", "C13_fresh", "C01_settles"],
    "C14": ["C14_rejected", "C14_message", "C14_names", "C14_exit", "C14_no_blueprint"],
    "C15": ["R2_equal", "R2_exposed", "C01_value", "C03_value", "C06_entity", "C06_condition", "C06_enable", "C09_bag", "C09_extra", "C01_settles"],
    "C16": ["R2_equal", "R2_exposed", "C01_value", "C03_value", "C06_entity", "C06_condition", "C06_enable", "C09_bag", "C09_extra", "C01_settles"],
    "C17": ["R2_equal", "R2_exposed", "C01_value", "C01_settles", "C17_terminates", "C17_import_trace", "C17_import_once"],
    "C18": ["C18_powered", "C18_powered_outside", "C18_one_grid", "C18_grid_gap", "C18_no_option", "C08_wire_reach", "C08_wire_ends", "C08_overlap", "R2_equal", "R2_exposed",
            "C09_bag", "C09_extra", "C06_enable", "C06_entity", "C06_condition", "C01_settles"],
    "C20": ["C20_exposed", "C20_label", "C20_input", "C01_value", "C02_bag"],
}


def prop(pid):
    def deco(fn):
        REGISTRY[pid] = fn
        return fn
    return deco


ASSUME_BASE = [
    "Circuit.tla + Int32.tla transcribe Factorio 2.0 circuit-network rules (no game binary in the sandbox)",
    "Facto.tla transcribes LANGUAGE_SPEC.md and the property statement",
    "TLC / SANY / JVM; generic JSON->TLA+ encoder and the description regex",
    "inputs range over a boundary domain (MinI,-65537,-7,-1,0,1,2,5,65536,MaxI + neighbours of program literals), not all of int32",
    "corners excluded by OpDefined (shift counts outside 0..31, negative exponents, MinI/-1) are skipped and counted",
    "layouts produced in deterministic solver mode (hook H2) unless the property varies the layout",
]


def stable_hash(s):
    return int(hashlib.sha256(s.encode()).hexdigest()[:8], 16)


def pick(progs, n, seed, always=()):
    """Seed-rotated slice of the closed corpus: `always` ids first, then every k-th of the rest (in source-text order)."""
    if n >= len(progs):
        return list(progs)
    # systematic sampling over the TEXT order: similar programs are neighbours, so every k-th one spreads the slice over the
    # whole variety of a combinatorial family (every shape once rather than a random handful); the seed rotates the phase
    keyed = sorted(progs, key=lambda p: (str(p.get("src", "")), p["id"]))
    chosen = [p for p in keyed if p["id"] in always]
    rest = [p for p in keyed if p["id"] not in always]
    k = max(1, len(rest) // max(1, n - len(chosen)))
    off = seed % k
    chosen += rest[off::k][: max(0, n - len(chosen))]
    return chosen


def pick_strat(progs, n, seed, min_per=10, always=()):
    """Seed-rotated slice that takes at least min_per programs of every group (`grp`), the rest proportionally."""
    groups = {}
    for p in progs:
        groups.setdefault(p.get("grp", ""), []).append(p)
    out = []
    total = len(progs)
    for g in sorted(groups):
        ps = groups[g]
        k = max(min(min_per, len(ps)), int(round(n * len(ps) / total)))
        out += pick(ps, k, seed, always)
    return out


def with_ids(progs, prefix):
    out = []
    for p in progs:
        q = dict(p)
        q["id"] = gen.prog_id(prefix, {"src": p["src"], "grp": p.get("grp", ""), "src2": p.get("src2", ""), "files": p.get("filesrc", ""),
                                       "decoys": p.get("decoys", ""), "dom": p.get("dom", "")})
        out.append(q)
    return out


def compile_records(ctx, progs, opts=None, variants=None):
    """Compile every program (optionally in several variants: list of (suffix, job overrides)).
    Returns {prog id: {suffix: result}}."""
    variants = variants or [("", {})]
    jobs = []
    for p in progs:
        for suf, ov in variants:
            job = {"id": p["id"] + suf, "src": p["src"]}
            job.update(opts or {})
            job.update(p.get("job", {}))
            job.update(ov)
            if job.pop("__twin", False):
                job["src"] = p["src2"]
            if job.pop("__poles", False):
                job["poles"] = p["pole"]
            jobs.append(job)
    res = compile_all(jobs)
    out = {}
    for p in progs:
        out[p["id"]] = {suf: res[p["id"] + suf] for suf, _ in variants}
    return out


def note_impl_reject(ctx, p, r):
    """A well-formed program the compiler refuses or crashes on is outside the antecedent (DESIGN 6.4)."""
    ctx.add("impl_rejected_wellformed", 1)
    lst = ctx.cov.setdefault("impl_rejected_samples", [])
    if len(lst) < 5:
        lst.append({"src": p["src"], "status": r.get("status"), "message": (r.get("message") or "")[:300]})


def run_refine(ctx, progs, consts, module="Refine", cfg=None, opts=None, batch_size=40, item_fn=None, variants=None,
               timeout=3000, keep_results=False, precompiled=None):
    """Compile, encode, validate with TLC. item_fn(p, results) -> item dict (with 'bps') or None."""
    cfg = cfg or refine.CFG_REFINE
    compiled = precompiled if precompiled is not None else compile_records(ctx, progs, opts, variants)
    if keep_results:
        ctx.results = compiled
    items, srcs, one_sided = [], {}, []
    for p in progs:
        rs = compiled[p["id"]]
        bad = [r for r in rs.values() if r.get("status") != "ok"]
        if bad:
            note_impl_reject(ctx, p, bad[0])
            if len(bad) < len(rs):
                one_sided.append(p["id"])      # e.g. the program compiles and its twin does not: recorded, and too many = my twins are broken
            continue
        if item_fn:
            it = item_fn(p, rs)
        else:
            it = {"id": p["id"], "stmts": p["stmts"], "u": 1, "bps": [prep_bp(rs[""]["bp"])]}
        if it is None:
            continue
        items.append(it)
        srcs[p["id"]] = p
    ctx.add("evaluations", len(progs))
    ctx.add("one_sided_rejections", len(one_sided))
    if len(one_sided) * 10 > len(progs) and len(one_sided) >= 3:
        raise Machinery("%d of %d records compile in one variant and are refused in the other (first: %s): the twin transformation or an option is broken"
                        % (len(one_sided), len(progs), one_sided[0]))
    if not items:
        raise Machinery("no program of the corpus slice compiled (%d tried)" % len(progs))
    c = {"Strict": False, "DomCap": 300, "Seed": ctx.seed, "Clauses": list(CLAUSES.get(ctx.pid, ()))}
    c.update(consts or {})
    br = refine.run_batches(ctx.wd, module, cfg, items, c, batch_size=batch_size, timeout=timeout)
    if br.errors:
        raise Machinery("TLC failed: " + " | ".join(br.errors[:3]))
    ctx.add("states", br.states)
    ctx.add("transitions", br.transitions)
    # acceptance (DESIGN 4.4): every record must have been really exercised
    vacuous = unobs = 0
    for it in items:
        s = br.summaries.get(it["id"])
        if s is None:
            raise Machinery("record %s has no SUMMARY line (TLC never reached the postcondition)" % it["id"])
        inits, checked, undef, corner = int(s[0]), int(s[1]), int(s[2]), int(s[3])
        amb = int(s[7]) if len(s) > 7 else 0
        unsettled = int(s[8]) if len(s) > 8 else 0
        ctx.add("unsettled_states", unsettled)
        hist = it.get("mode") == "hist"
        ctx.add("raced_states_not_judged", amb)
        unsup = s[5].strip() if len(s) > 5 else "{}"
        ctx.add("valuations_explored", inits)
        ctx.add("settled_states_checked", checked)
        ctx.add("skipped_undefined", undef + corner)
        if unsup != "{}":
            ctx.add("unobservable_input" if "input-not-found" in unsup else "unsupported_json_feature", 1)
            unobs += 1
            continue
        failed = any(f[0] == it["id"] for f in br.fails) or any(k[0] == it["id"] for k in br.known)
        if inits < 1 and failed:
            continue
        if inits < 1:
            raise Machinery("record %s: no initial state was generated" % it["id"])
        if not hist and checked + undef + corner + unsettled != inits and not failed:
            raise Machinery("record %s: %d valuations but %d settled states accounted for" % (it["id"], inits, checked + undef + corner))
        if checked == 0:
            vacuous += 1
        else:
            ctx.add("traces_validated_against_impl", 1)
            if len(s) > 6 and s[6].strip() == "2":
                ctx.add("distinct_nontrivial", 1)
    if unobs * 20 > len(items) and unobs >= 4:
        raise Machinery("%d of %d records are unobservable/unsupported (labels reworded or JSON shape changed?)" % (unobs, len(items)))
    if vacuous * 20 > len(items):
        raise Machinery("%d of %d records were never judged (vacuous run)" % (vacuous, len(items)))
    ctx.add("never_judged_records", vacuous)
    for rid, clause, kf in br.known:
        ctx.known[kf] = ctx.known.get(kf, 0) + 1
    for rid, clause, info in br.fails:
        p = srcs.get(rid, {})
        it = next((x for x in items if x["id"] == rid), {})
        ctx.violation(rid, clause, info, {"src": p.get("src"), "src2": p.get("src2"), "opts": opts or {}, "module": module, "cfg": cfg,
                                           "consts": c, "job": p.get("job", {}), "variants": variants or [("", {})],
                                           "item": {k: v for k, v in it.items() if k != "bps"}})
    for it in items[:3]:
        p = srcs[it["id"]]
        ctx.sample({"id": it["id"], "src": p["src"], "summary(valuations,checked,undef,corner,outputs,unsupported,distinct)": br.summaries[it["id"]]})
    return br


# ------------------------------------------------------------------------------------------ C01
@prop("C01")
def c01(ctx):
    progs = with_ids(gen.generate("GenScalar"), "sc")
    ctx.cov["corpus_size"] = len(progs)
    if ctx.tier == "quick":
        sel = pick_strat(progs, 240, ctx.seed, min_per=16, always=SMOKE.get("C01", ()))
        have = {p["id"] for p in sel}
        sel += [p for p in progs if p["grp"] == "share" and p["id"] not in have]
        consts = {"DomCap": 216}
    else:
        sim = with_ids(gen.generate_sim("GenSim", 600, 12, 20260925), "sm")
        ctx.cov["simulated_programs"] = len(sim)
        sel = progs + sim
        consts = {"DomCap": 1000}
        ctx.cov["exhaustive"] = True
    ctx.cov["rule"] = ("programs = GenScalar exhaustive core (every ordered operator pair in both tree shapes, operand-kind matrix, "
                       "unary/projection/literal/conditional forms, sharing patterns) rendered by the spec, thorough adds 600 GenSim random SSA programs (TLC simulation mode, fixed seed); each compiled by the real "
                       "compiler; TLC explores Circuit(BP) from every valuation of the boundary domain until settled and compares "
                       "every unconsumed named result with the interpreter; non-trivial = the record showed >= 2 distinct expected observations")
    ctx.assumptions = ASSUME_BASE
    if os.environ.get("VERIF_DEV_GROUP"):      # development aid: one family only (never set by the registered commands)
        sel = [p for p in progs if p["grp"] == os.environ["VERIF_DEV_GROUP"]]
    run_refine(ctx, sel, consts)


@prop("C02")
def c02(ctx):
    progs = with_ids(gen.generate("GenBundle"), "bu")
    ctx.cov["corpus_size"] = len(progs)
    if ctx.tier == "quick":
        sel = pick_strat(progs, 120, ctx.seed, min_per=12, always=SMOKE.get("C02", ()))
        consts = {"DomCap": 125}
    else:
        sel = progs
        consts = {"DomCap": 1000}
        ctx.cov["exhaustive"] = True
    ctx.cov["rule"] = ("programs = GenBundle exhaustive core (bundle literals incl. nested/merged, each-arithmetic x operand kinds, "
                       "filters x output modes x thresholds, gating, any/all, selection, chains) rendered by the spec and compiled by the "
                       "real compiler; for every boundary valuation TLC compares the WHOLE signal bag on each result's anchor network "
                       "with the interpreter's bundle (map of non-zero members): a leaked operand, doubled or missing member fails")
    ctx.assumptions = ASSUME_BASE
    run_refine(ctx, sel, consts)


def mem_check(ctx, grps, vclause, nquick):
    progs = [p for p in with_ids(gen.generate("GenMem"), "me") if p["grp"] in grps]
    if vclause == "C03_value":
        # cells declared inside functions and loop bodies (per call / per iteration instances, name clashes with the caller)
        progs += [dict(p, dom=[-3, 0, 1, 5]) if ctx.tier == "quick" else p for p in with_ids(gen.generate("GenFL"), "fl") if p.get("mode") == "hist"]
    ctx.cov["corpus_size"] = len(progs)
    if ctx.tier == "quick":
        sel = pick_strat(progs, nquick, ctx.seed, min_per=5)
    else:
        sel = progs
        ctx.cov["exhaustive"] = True
    ctx.assumptions = ASSUME_BASE + [
        "histories change one input at a time and hold it until the circuit settles; TLC closes the reachable graph (all histories)",
        "a single change that drops the enable while changing the data (or drops set and reset together) is a hardware race: "
        "that state is not judged and the cell is re-read through its direct reader (counted as raced_states_not_judged)"]

    def item(p, rs):
        return {"id": p["id"], "stmts": p["stmts"], "u": 1, "mode": "hist", "dom": p["dom"], "vclause": vclause,
                "bps": [prep_bp(rs[""]["bp"])]}
    run_refine(ctx, sel, {"DomCap": 100000}, item_fn=item, batch_size=8)


@prop("C03")
def c03(ctx):
    ctx.cov["rule"] = ("programs = GenMem gated cells (9 enable forms x 5 data forms, shared data/enable input, 1-3 readers, typed/untyped/"
                       "item-typed cells, two independent and two chained cells, named or inline arithmetic enables with other consumers of the name); TLC explores ALL input histories (closure of ChangeInput "
                       "over the trimmed domain) of Circuit(BP) x abstract gated cell and compares every reader at every settled state: "
                       "0 before the first enabled write, follows v while c > 0, holds afterwards whatever v does")
    mem_check(ctx, ("cell", "shared", "readers", "two", "cells", "samee", "early", "foreign", "enalias"), "C03_value", 39)


@prop("C04")
def c04(ctx):
    progs = [p for p in with_ids(gen.generate("GenSelf"), "sf") if p["grp"] != "register"]
    ctx.cov["corpus_size"] = 2 * len(progs)
    sel = progs
    ctx.cov["exhaustive"] = ctx.tier != "quick"
    ctx.cov["rule"] = ("programs = GenSelf (m.write(f(m.read())) with f a chain of 1..4 steps: counters, modulo clocks, accumulators over a held "
                       "input, LFSR mixes, conditional resets; 1-3 readers), each compiled with and without optimisation (arithmetic-feedback and "
                       "two-gate implementations both arise); for every constant valuation TLC runs the circuit 52 ticks from the all-zero state "
                       "and checks EXISTS L in 1..6: FORALL t >= W: value(t+L) = f(value(t)) on the direct reader, and every other reader as a "
                       "delayed function of the cell; non-trivial = the observed cell value still changes at the end of the run")
    ctx.assumptions = ASSUME_BASE + ["warm-up W = 4 ticks (feed-forward latency of operands computed outside the loop) is not judged"]
    both = []
    for p in sel:
        both.append(dict(p))
        q = dict(p)
        q["id"] = p["id"] + "-noopt"
        q["job"] = {"optimize": False}
        both.append(q)

    def item(p, rs):
        return {"id": p["id"], "stmts": p["stmts"], "u": 1, "dom": p["dom"], "bps": [prep_bp(rs[""]["bp"])]}
    run_refine(ctx, both, {"DomCap": 1000}, module="RefineTick", cfg=refine.CFG_TICK, item_fn=item, batch_size=8)


@prop("C05")
def c05(ctx):
    ctx.cov["rule"] = ("programs = GenMem latches (both argument orders x value 1 / constant / signal x set,reset as boolean signals, "
                       "comparisons on two inputs, comparisons on one input with disjoint / touching / overlapping thresholds); TLC explores "
                       "ALL input histories of Circuit(BP) x abstract SR/RS latch with the priority named first in the call")
    mem_check(ctx, ("latch1", "latch1b", "latch2", "latchx", "latchs", "latch2s"), "C05_value", 60)


def ent_progs(prefix):
    return [dict(p, grp=p["grp"][4:]) for p in with_ids(gen.generate("GenEntity"), "en") if p["grp"].startswith(prefix)]


@prop("C06")
def c06(ctx):
    progs = ent_progs("c06:")
    ctx.cov["corpus_size"] = 2 * len(progs)
    sel = pick_strat(progs, 70, ctx.seed, min_per=8) if ctx.tier == "quick" else progs
    ctx.cov["exhaustive"] = ctx.tier != "quick"
    ctx.cov["rule"] = ("programs = GenEntity: 5 circuit-controllable prototypes x 15 enable forms (inlinable comparisons, signal-vs-signal, "
                       "general expressions, logic, bare signals, conditional values with constant outputs -2 / 2 / 5), shared sources / several entities, contents read through .output (any/all "
                       "inlined, selection, merges of two chests, the documented balanced-loader pattern); each compiled with and without "
                       "optimisation; for every valuation of inputs and chest contents TLC evaluates the entity's circuit condition on the "
                       "network actually wired to it and compares with (expr > 0)")
    ctx.assumptions = ASSUME_BASE + ["contents of a read entity range over {0, 1, 7, 100} per item (iron-plate, copper-plate)"]
    both = []
    for p in sel:
        both.append(dict(p))
        q = dict(p)
        q["id"] = p["id"] + "-noopt"
        q["job"] = {"optimize": False}
        both.append(q)

    def item(p, rs):
        items = sorted({c["item"] for c in p.get("cins", [])})
        it = {"id": p["id"], "stmts": p["stmts"], "u": 1, "dom": p["dom"], "bps": [prep_bp(rs[""]["bp"], extra=items)]}
        if p.get("cins"):
            it["cins"] = p["cins"]
        return it
    run_refine(ctx, both, {"DomCap": 300 if ctx.tier == "quick" else 2500}, item_fn=item, batch_size=12)


@prop("C09")
def c09(ctx):
    progs = ent_progs("c09:")
    ctx.cov["corpus_size"] = len(progs)
    sel = progs
    ctx.cov["exhaustive"] = True
    ctx.cov["rule"] = ("programs = GenEntity C09 families: 9 prototypes (1x1 .. 3x3) x coordinates incl. negatives, static properties, loops "
                       "over every (start, stop, step) of a small box incl. empty and descending ranges, list iterators, nested loops, int "
                       "arithmetic, functions called repeatedly / nested / inside loops, mixes with circuits; TLC compares the bag of non-"
                       "compiler-made entities of the blueprint with the interpreter's list of executed place() statements (top-left tile = "
                       "centre - footprint/2, properties present); compiled with no poles and with medium poles")
    ctx.assumptions = ASSUME_BASE + ["compiler-made entities are recognised by prototype (combinators, electric poles); generators never place those"]
    both = []
    for p in sel:
        both.append(dict(p))
        q = dict(p)
        q["id"] = p["id"] + "-poles"
        q["job"] = {"poles": "medium"}
        both.append(q)
    run_refine(ctx, both, {"DomCap": 4}, batch_size=30)


@prop("C10")
def c10(ctx):
    sc = with_ids(gen.generate("GenScalar"), "sc")
    bu = with_ids(gen.generate("GenBundle"), "bu")
    ctx.cov["corpus_size"] = len(sc) + len(bu)
    if ctx.tier == "quick":
        sel = pick_strat(sc, 160, ctx.seed + 2, min_per=10) + pick_strat(bu, 80, ctx.seed + 2, min_per=10)
        have = {p["id"] for p in sel}
        sel += [p for p in sc if p["grp"] == "share" and p["id"] not in have]      # the sharing patterns are few and all about this pass
        consts = {"DomCap": 125}
    else:
        sel = sc + bu
        consts = {"DomCap": 1000}
        ctx.cov["exhaustive"] = True
    ctx.cov["rule"] = ("every program of the GenScalar and GenBundle cores compiled twice (optimisation on / --no-optimize); TLC runs both "
                       "blueprints in lock-step from every boundary valuation and compares every exported result (whole bags for bundles); "
                       "an output only one of the builds exposes is a difference")
    ctx.assumptions = ASSUME_BASE

    def item(p, rs):
        return {"id": p["id"], "stmts": p["stmts"], "u": 1, "u2": 2, "r1": False,
                "bps": [prep_bp(rs[""]["bp"]), prep_bp(rs["#noopt"]["bp"])]}
    for p in sel:
        p.setdefault("job", {}).update({"trace": True, "tracedir": ctx.wd})
    run_refine(ctx, sel, consts, item_fn=item, variants=[("", {}), ("#noopt", {"optimize": False})], batch_size=30, keep_results=True)
    # the CSE design model (DESIGN 14.11): model check, recorded optimizer passes (code -> spec), TLC-enumerated operation sequences
    # through the real optimizer (spec -> code)
    import cse
    design_mc(ctx, "MC_Cse", "MC_Cse.cfg", workers=6, timeout=1800, coverage=False)
    cse.validate_events(ctx, ctx.results, sel)
    cse.validate_instances(ctx, quick=ctx.tier == "quick")


def twin_item(p, rs, **extra):
    it = {"id": p["id"], "stmts": p["stmts"], "stmts2": p["stmts2"], "u": 1, "u2": 2, "r1both": True,
          "bps": [prep_bp(rs[""]["bp"]), prep_bp(rs["#twin"]["bp"])]}
    if p.get("pin2"):
        it["pin2"] = p["pin2"]
    it.update(extra)
    return it


@prop("C11")
def c11(ctx):
    progs = with_ids(gen.generate("GenFold"), "fo")
    ctx.cov["corpus_size"] = len(progs)
    if ctx.tier == "quick":
        sel = pick(progs, 330, ctx.seed, always=SMOKE.get("C11", ()))
    else:
        sel = progs
        ctx.cov["exhaustive"] = True
    ctx.cov["rule"] = ("programs = GenFold: every arithmetic operator x 7 folding sites (int declaration, inline operand, typed-literal value, "
                       "condition constant, constant call argument, untyped constants folded in IR, int chain) x all defined pairs of 9 boundary "
                       "operands; each with its Deconst twin (constant operand replaced by an input pinned to the same value). TLC judges the "
                       "folded build against the interpreter whose compile-time arithmetic is Int32, compares it with the twin build in "
                       "lock-step, and rejects any out-of-int32 constant in the blueprint")
    ctx.assumptions = ASSUME_BASE

    def item(p, rs):
        return twin_item(p, rs)
    for p in sel:
        p["job_twin"] = {"src": p["src2"]}
    run_refine(ctx, sel, {"DomCap": 64}, item_fn=item, variants=[("", {}), ("#twin", {"__twin": True})], batch_size=60)


def fl_check(ctx, prefix):
    progs = [dict(p, grp=p["grp"][5:]) for p in with_ids(gen.generate("GenFL"), "fl") if p["grp"].startswith(prefix)]
    ctx.cov["corpus_size"] = len(progs)
    sel = progs
    ctx.cov["exhaustive"] = True
    ctx.assumptions = ASSUME_BASE + ["the twin program is computed by Facto!Unroll / Facto!Inline (syntactic substitution, locals renamed apart)"]

    def item(p, rs):
        hist = p.get("mode") == "hist"
        # (quick: histories over a 4-value domain - three inputs x two builds in lock-step grow with the cube of the domain)
        it = twin_item(p, rs, dom=[-3, 0, 1, 5] if hist and ctx.tier == "quick" else p["dom"])
        if hist:
            it["mode"] = "hist"
            it["vclause"] = "C03_value"
        return it
    run_refine(ctx, sel, {"DomCap": 300 if ctx.tier == "quick" else 3000}, item_fn=item, variants=[("", {}), ("#twin", {"__twin": True})], batch_size=6)


@prop("C12")
def c12(ctx):
    progs = with_ids(gen.generate("GenPair"), "pa")
    for p in progs:   # the id must distinguish the P-side and Q-side records of one interleaving
        p["id"] = gen.prog_id("pa", {"src": p["src"], "src2": p["src2"]})
        if p.get("cins"):
            p["grp"] = "far" + p["grp"]
        else:
            p["grp"] = "%s:%s-%s" % (p["grp"], p.get("pi"), p.get("qj"))     # every (P, Q) combination is a stratum of the quick slice
    ctx.cov["corpus_size"] = len(progs)
    sel = pick_strat(progs, 110, ctx.seed, min_per=2) if ctx.tier == "quick" else progs
    ctx.cov["exhaustive"] = ctx.tier != "quick"
    ctx.cov["rule"] = ("pairs (P, Q) from GenPair (3 x 5 small programs over disjoint variable names that reuse the same explicit signals and "
                       "neighbouring tiles) x ALL order-preserving interleavings; the build of the interleaved program is run in lock-step with "
                       "the build of P alone (and of Q alone) from every valuation of the inputs of BOTH programs; P's (Q's) exported values "
                       "must be equal in both builds, i.e. independent of the other program's inputs")
    ctx.assumptions = ASSUME_BASE

    def item(p, rs):
        it = twin_item(p, rs, dom=p["dom"], owner=p["owner"])
        if p.get("cins"):
            items = sorted({c["item"] for c in p["cins"]})
            it["cins"] = p["cins"]
            it["bps"] = [prep_bp(rs[""]["bp"], extra=items), prep_bp(rs["#twin"]["bp"], extra=items)]
        return it
    for p in sel:
        p.setdefault("job", {}).update({"trace": True, "tracedir": ctx.wd})
    run_refine(ctx, sel, {"DomCap": 700}, item_fn=item, variants=[("", {}), ("#twin", {"__twin": True})], batch_size=20, keep_results=True)
    colour_checks(ctx, sel, quick_n=6000)


def colour_checks(ctx, progs, quick_n):
    """The wire-colour design model (DESIGN 14.9): exhaustive model check, recorded planner calls of this run's compilations
    judged by TraceColour (code -> spec), TLC-enumerated planner inputs through the real function (spec -> code)."""
    import colour
    if ctx.tier == "quick":
        design_mc(ctx, "MC_Colour", "MC_Colour.cfg", workers=6)
    else:
        design_mc(ctx, "MC_Colour", "MC_Colour_deep.cfg", workers=12, timeout=3000, coverage=False, xmx="8g")
        design_mc(ctx, "MC_Colour", "MC_Colour_locks.cfg", workers=12, timeout=3000, coverage=False, xmx="8g")
    colour.validate_events(ctx, ctx.results, progs)
    colour.validate_instances(ctx, quick=ctx.tier == "quick")


def run_cli(entry, args, cwd, timeout=240, hashseed="0", trace=None):
    """Run the real command line as a subprocess (entry: 'module' = python -m dsl_compiler, 'script' = compile.py,
    'factompile' = the console entry point function)."""
    import subprocess
    from common import REPO, VENV_PY
    env = dict(os.environ, PYTHONPATH=REPO, PYTHONHASHSEED=str(hashseed), FACTOMPILER_VERIF="1",
               FACTOMPILER_VERIF_LAYOUT=json.dumps({"det": True, "seed": 7, "dtime": 0.5, "workers": 1}))
    env.pop("FACTOMPILER_VERIF_TRACE", None)
    if trace:
        env["FACTOMPILER_VERIF_TRACE"] = trace
    if entry == "module":
        cmd = [VENV_PY, "-m", "dsl_compiler"] + args
    elif entry == "script":
        cmd = [VENV_PY, os.path.join(REPO, "compile.py")] + args
    else:
        cmd = [VENV_PY, "-c", "import sys; from dsl_compiler.cli import main; sys.argv[0] = 'factompile'; main()"] + args
    try:
        r = subprocess.run(cmd, cwd=cwd, env=env, capture_output=True, text=True, timeout=timeout)
        return r.returncode, r.stdout, r.stderr
    except subprocess.TimeoutExpired:
        return 124, "", "timeout"


def classify_stdout(text):
    """What does the text look like? 'empty', 'blueprint' (decodable blueprint string), 'json' (blueprint JSON), 'other'."""
    import base64
    import zlib
    t = text.strip()
    if not t:
        return "empty"
    for line in [t] + t.splitlines():
        line = line.strip()
        if line.startswith("{"):
            try:
                d = json.loads(line)
                if isinstance(d, dict) and ("blueprint" in d or "blueprint_book" in d):
                    return "json"
            except ValueError:
                pass
        if line.startswith("0") and len(line) > 20:
            try:
                d = json.loads(zlib.decompress(base64.b64decode(line[1:])))
                if isinstance(d, dict) and "blueprint" in d:
                    return "blueprint"
            except Exception:
                pass
    return "other"


@prop("C14")
def c14(ctx):
    import refine as rf
    from common import run_tlc, tagged_tuples, tlc_errors, unq
    from encode import enc
    progs = gen.generate("GenIll", tag="v1")
    for p in progs:
        p["id"] = gen.prog_id("il", {"src": p["src"]})
    ctx.cov["corpus_size"] = len(progs)
    sel = pick(progs, 150, ctx.seed, always=SMOKE.get("C14", ())) if ctx.tier == "quick" else progs
    ctx.cov["exhaustive"] = ctx.tier != "quick"
    ctx.cov["rule"] = ("programs = GenIll: 40 ill-formed blocks covering the 20 documented static rules x 4 embedding contexts (top level, "
                       "function body, loop body, loop inside a function) x 3 positions in a valid host; each replayed through the compiler's "
                       "API, and one program per rule through the real command line (-i and file input, stdout and -o); TLC evaluates "
                       "ill-formed => rejected with a non-empty error that names the offending identifier, exit status != 0, nothing that decodes "
                       "to a blueprint on stdout or in the output file; non-trivial = distinct (rule, context, position) triples")
    ctx.assumptions = ["every generated program violates the named rule by construction (GenIll.tla)",
                       "'the message mentions the name' is a substring test done by the harness"]
    res = compile_all([{"id": p["id"], "src": p["src"]} for p in sel], timeout=120)
    recs = []
    for p in sel:
        r = res[p["id"]]
        msg = (r.get("message") or "")
        recs.append({"id": p["id"], "rule": p["grp"], "ctx": p["ctx"], "pos": p["pos"], "name": p["name"], "status": r.get("status", "crashed"),
                     "message": msg[:300], "msg": bool(msg.strip()), "names": bool(p["name"]) and p["name"] in msg})
    # the real command line for one program per rule (top level, middle position)
    seen = set()
    import tempfile
    clidir = os.path.join(ctx.wd, "cli")
    os.makedirs(clidir, exist_ok=True)
    k = 0
    for p in sel:
        if p["ctx"] != "top" or p["pos"] != "middle" or p["grp"] in seen:
            continue
        seen.add(p["grp"])
        k += 1
        src_file = os.path.join(clidir, "ill%d.facto" % k)
        with open(src_file, "w") as fh:
            fh.write(p["src"])
        out_file = os.path.join(clidir, "ill%d.out" % k)
        mode = k % 3
        if mode == 0:
            code, so, se = run_cli("module", ["-i", p["src"]], clidir)
        elif mode == 1:
            code, so, se = run_cli("script", [src_file, "-o", out_file], clidir)
        else:
            code, so, se = run_cli("factompile", [src_file, "--json"], clidir)
        outfile = os.path.exists(out_file) and classify_stdout(open(out_file).read()) in ("blueprint", "json")
        msg = (se or "")[-600:]
        recs.append({"id": p["id"] + "-cli", "rule": p["grp"], "ctx": "cli", "pos": "middle", "name": p["name"],
                     "status": "rejected" if code != 0 else "ok", "message": msg[-300:], "msg": bool(msg.strip()),
                     "names": bool(p["name"]) and p["name"] in (se or ""), "cli": {"exit": code, "stdout": classify_stdout(so), "outfile": bool(outfile)}})
    ctx.add("evaluations", len(recs))
    d = os.path.join(ctx.wd, "reject")
    os.makedirs(d)
    with open(os.path.join(d, "Data.tla"), "w") as fh:
        fh.write("---- MODULE Data ----\nEXTENDS Integers\nClauses == %s\nRecs == <<\n %s\n>>\n====\n" % (enc(set(CLAUSES["C14"])), ",\n ".join(enc(r) for r in recs)))
    with open(os.path.join(d, "T.tla"), "w") as fh:
        fh.write("---- MODULE T ----\nEXTENDS Reject\n====\n")
    with open(os.path.join(d, "T.cfg"), "w") as fh:
        fh.write("INIT RInit\nNEXT RNext\n")
    code, out, wall = run_tlc(d, "T", cfg="T.cfg", timeout=900)
    chk = tagged_tuples(out, "CHECKED")
    if tlc_errors(out) or not chk or int(chk[0][1]) != len(recs):
        raise Machinery("Reject.tla did not evaluate all %d records: %s" % (len(recs), out[-1200:]))
    ctx.add("states", len(recs))
    ctx.add("transitions", len(recs))
    ctx.add("traces_validated_against_impl", len(recs))
    ctx.add("distinct_nontrivial", len({(r["rule"], r["ctx"], r["pos"]) for r in recs}))
    ctx.cov["cli_invocations"] = len(seen)
    ctx.cov["outcomes"] = {s: sum(1 for r in recs if r["status"] == s) for s in ("ok", "rejected", "crashed", "timeout")}
    srcs = {p["id"]: p["src"] for p in sel}
    for f in tagged_tuples(out, "FAIL"):
        rid = unq(f[1])
        ctx.violation(rid, unq(f[2]), ", ".join(f[3:]), {"src": srcs.get(rid.replace("-cli", "")), "item": {}, "module": "Reject"})
    for r in recs[:3]:
        ctx.sample({"src": srcs.get(r["id"].replace("-cli", "")), "rule": r["rule"], "ctx": r["ctx"], "status": r["status"], "message": r["message"][:160]})


def layout_corpus(ctx, quick_n):
    """Programs for the layout-sensitive properties: the GenLayout families (far apart entities, fan-out, long chains, columns,
    combinators pulled away from their neighbours) plus a FIXED pool from every other family (closed corpus: the pool does not
    depend on the seed; the quick tier takes a seed-rotated part of it, thorough all of it)."""
    out = []
    quick = ctx.tier == "quick"

    def take(mod, prefix, pool_n, filt=None, **extra):
        ps = with_ids(gen.generate(mod), prefix)
        if filt:
            ps = [p for p in ps if filt(p)]
        pool = pick_strat(ps, pool_n, 0, min_per=3) if pool_n < len(ps) else ps
        chosen = pick(pool, max(2, (quick_n * len(pool)) // 16), ctx.seed) if (quick and mod != "GenLayout") else pool
        for p in chosen:
            q = dict(p)
            q.update(extra)
            out.append(q)
    take("GenLayout", "gl", 1000)
    take("GenScalar", "sc", 40, lambda p: p["grp"] in ("form", "share", "pair", "logic", "twocons"))
    take("GenBundle", "bu", 14)
    take("GenMem", "me", 14, lambda p: p["grp"] in ("cell", "latch1", "latchx", "samee"), hist=True)
    take("GenEntity", "en", 30, lambda p: p["grp"].startswith("c06:") or p["grp"] in ("c09:loop", "c09:func", "c09:mixed", "c09:shadow"))
    take("GenFL", "fl", 14, lambda p: p.get("mode") != "hist")
    if quick:   # the GenLayout families are small: the quick tier keeps a third of them
        gl = [p for p in out if p["id"].startswith("gl-")]
        keep = {p["id"] for p in pick_strat(gl, max(10, len(gl) // 3), ctx.seed, min_per=8)}   # groups of <= 8 programs are kept whole
        out = [p for p in out if not p["id"].startswith("gl-") or p["id"] in keep]
    return out


def layout_item(p, r, **extra):
    items = sorted({c["item"] for c in p.get("cins", [])}) if p.get("cins") else []
    it = {"id": p["id"], "stmts": p["stmts"], "src": p["src"], "u": 1, "bps": [prep_bp(r["bp"], extra=items)]}
    if p.get("dom"):
        it["dom"] = p["dom"]
    if p.get("cins"):
        it["cins"] = p["cins"]
    if p.get("hist") or p.get("mode") == "hist":
        it["mode"] = "hist"
        it["vclause"] = "C03_value"
    it.update(extra)
    return it


LAYOUT_SCRIPTS = [
    ("det", {"det": True, "seed": 7, "dtime": 0.5, "workers": 1}),
    ("q-none", {"det": True, "seed": 7, "dtime": 0.5, "workers": 1, "solve": ["none"]}),
    ("3-none", {"det": True, "seed": 7, "dtime": 0.5, "workers": 1, "solve": ["none", "none", "none"]}),
    ("5-none", {"det": True, "seed": 7, "dtime": 0.5, "workers": 1, "solve": ["none"] * 5}),
    ("all-none", {"det": True, "seed": 7, "dtime": 0.5, "workers": 1, "solve": ["none"] * 8}),
    ("r1", {"det": True, "seed": 7, "dtime": 0.5, "workers": 1, "route": [False]}),
    ("r2", {"det": True, "seed": 11, "dtime": 0.5, "workers": 1, "route": [False, False]}),
    ("r3", {"det": True, "seed": 7, "dtime": 0.5, "workers": 1, "route": [False, False, False], "solve": ["none"]}),
    ("r4", {"det": True, "seed": 7, "dtime": 0.5, "workers": 1, "route": [False, False, False, False]}),
    ("seed3", {"det": True, "seed": 3, "dtime": 0.2, "workers": 1}),
    ("nat", {"seed": 5, "workers": 4, "wall": 2}),
]


def validate_layout_traces(ctx, recs, results):
    traces = []
    for p in recs:
        r = results.get(p["id"], {}).get("")
        if not r or r.get("status") not in ("ok", "rejected"):
            continue
        evs = []
        big = False
        for e in r.get("events", []):
            if e.get("ev") == "solve":
                evs.append({"ev": "solve", "strategy": e["strategy"], "status": e["status"]})
            elif e.get("ev") == "route":
                evs.append({"ev": "route", "attempt": e["attempt"], "ok": bool(e["ok"])})
                big = big or e.get("entities", 0) > 500
        if big or not evs:
            continue
        traces.append({"id": p["id"], "outcome": r["status"], "events": evs})
    if not traces:
        raise Machinery("no layout events were recorded (hook H2 missing?)")
    ok, rej, fails, states, errors = refine.run_trace_batches(ctx.wd, "TraceLayout", refine.CFG_TRACE_LAYOUT, traces, batch_size=40)
    if errors:
        raise Machinery("layout trace validation failed to run: " + " | ".join(errors[:2]))
    if len(ok) + len(rej) != len(traces):
        raise Machinery("layout trace validation: %d traces, %d verdicts" % (len(traces), len(ok) + len(rej)))
    ctx.add("states", states)
    ctx.cov["layout_traces_accepted"] = len(ok)
    ctx.cov["layout_events_validated"] = sum(len(t["events"]) for t in traces)
    src = {p["id"]: p for p in recs}
    for tid, got, total, nxt in rej:
        ctx.violation(tid, "C08_layout_trace", "layout events are not a behaviour of Layout ending in the observed outcome: %d of %d explained; next: %s" % (got, total, nxt[:200]),
                      {"src": src[tid]["src"], "item": {}, "module": "TraceLayout", "job": src[tid].get("job")})
    for tid, clause, info in fails:
        ctx.violation(tid, clause, info, {"src": src[tid]["src"], "item": {}, "module": "TraceLayout"})


@prop("C08")
def c08(ctx):
    quick = ctx.tier == "quick"
    base = layout_corpus(ctx, 6 if quick else 14)
    poles = [None, "small", "medium", "big", "substation"]
    recs = []
    for i, p in enumerate(base):
        combos = []
        h = stable_hash(p["id"]) + ctx.seed
        if quick:
            combos.append((poles[h % 5], (h // 5) % 2 == 0, LAYOUT_SCRIPTS[(h // 10) % len(LAYOUT_SCRIPTS)]))
            combos.append((None, True, LAYOUT_SCRIPTS[0]))
        else:
            for j, sc in enumerate(LAYOUT_SCRIPTS):
                combos.append((poles[(h + j) % 5], (h + j) % 2 == 0, sc))
            combos.append((None, True, LAYOUT_SCRIPTS[0]))
        for pl, opt, (sname, script) in combos:
            q = dict(p)
            q["id"] = "%s-%s-%s-%s" % (p["id"], pl or "nopole", "opt" if opt else "noopt", sname)
            q["job"] = {"poles": pl, "optimize": opt, "layout": script, "trace": True, "tracedir": ctx.wd}
            q["expect_error"] = sname in ("all-none", "r4")
            recs.append(q)
    seen = set()
    recs = [r for r in recs if not (r["id"] in seen or seen.add(r["id"]))]
    ctx.cov["corpus_size"] = len(recs)
    ctx.cov["exhaustive"] = False
    ctx.cov["rule"] = ("(1) Layout control-flow model checked exhaustively (6-step ladder, 3 retries, every solver / routing outcome) incl. "
                       "liveness; (2) programs from GenLayout (entities 10-45 tiles apart, fan-out rows, chains of up to 26 operations, wide "
                       "programs) and a slice of every other family x power-pole option x optimise on/off x layout-outcome scripts that are "
                       "behaviours of the model (forced solver failures of the first 1/3/5/all strategies, forced routing failures of the "
                       "first 1..4 attempts, other solver seeds, natural multi-worker mode) forced into the real code through hook H2; "
                       "every emitted blueprint: Paste (no overlapping collision boxes, wire ends exist with such a connector, one colour per "
                       "wire, length <= reach of both ends) and Refine1 (a relay that joined two networks would change a value); hook events "
                       "validated as a behaviour of Layout ending in the observed outcome; a scripted total failure must give no blueprint")
    ctx.assumptions = ASSUME_BASE + ["prototype geometry and wire reach are read from the draftsman game data (Proto.tla)",
                                     "relay coherence is decided semantically: every relay-heavy blueprint must still refine the source"]
    design_mc(ctx, "MC_Layout", "MC_Layout.cfg")

    def item(p, rs):
        return layout_item(p, rs[""], poles=p["job"].get("poles") or "")
    ok_recs = recs
    compiled = compile_records(ctx, recs)
    ctx.results = compiled
    # (a scripted total failure must give no blueprint: decided by the trace validation below - a trace whose solver calls all
    #  fail, or whose four routing attempts all fail, ends in the model's error phase and is rejected if a blueprint was emitted)
    good = [p for p in recs if compiled[p["id"]][""].get("status") == "ok"]
    ctx.cov["scripted_refusals"] = sum(1 for p in recs if compiled[p["id"]][""].get("status") == "rejected")
    ctx.cov["blueprints_with_relays"] = sum(1 for p in good if any(e["name"].endswith("pole") or e["name"] == "substation"
                                                                  for e in compiled[p["id"]][""]["bp"]["blueprint"].get("entities", [])))
    run_refine(ctx, good, {"DomCap": 30 if quick else 120}, item_fn=item, batch_size=14, precompiled=compiled)
    validate_layout_traces(ctx, recs, compiled)


@prop("C18")
def c18(ctx):
    quick = ctx.tier == "quick"
    base = layout_corpus(ctx, 5 if quick else 12)
    types = ["small", "medium", "big", "substation"]
    recs = []
    for p in base:
        h = stable_hash(p["id"]) + ctx.seed
        for t in ([types[h % 4]] if quick else types):
            q = dict(p)
            q["id"] = "%s-%s" % (p["id"], t)
            q["pole"] = t
            recs.append(q)
    ctx.cov["corpus_size"] = len(recs)
    ctx.cov["exhaustive"] = False
    ctx.cov["rule"] = ("programs = GenLayout families + a slice of every other family, each compiled with --power-poles T (T in small, medium, "
                       "big, substation) and without the option; TLC checks on the poled build: every electricity consumer touches the supply "
                       "area of a pole of type T (prototype data from the game data), the poles form one copper network whose wires are within "
                       "reach; on the plain build: every pole is a circuit relay; both builds run in lock-step (equal exported values) and "
                       "carry the same user-placed entities")
    ctx.assumptions = ASSUME_BASE + ["supply_area_distance / maximum_wire_distance / energy_source are read from the draftsman game data (Proto.tla)"]

    def item(p, rs):
        it = layout_item(p, rs["#poles"], u2=2, poles=p["pole"], poles2="", r1=False)
        it["bps"].append(prep_bp(rs[""]["bp"], extra=it["bps"][0]["extra"]))
        return it
    variants = [("", {}), ("#poles", {"__poles": True})]
    for p in recs:
        p["job_poles"] = p["pole"]
    run_refine(ctx, recs, {"DomCap": 30 if quick else 100}, item_fn=item, variants=variants, batch_size=12)


UNRELATED = ('Signal q1 = ("signal-Q", 3);\nSignal q2 = 9;\nMemory qm: "signal-R";\nqm.write(q1 | "signal-R", when=q2 > 1);\n'
             'Bundle qb = { q1, ("iron-plate", 4) };\nBundle qd = qb * 3;\nEntity ql = place("small-lamp", 3, 3);\nql.enable = any(qd) > 5;\n')


@prop("C19")
def c19(ctx):
    from common import run_tlc, tagged_tuples, tlc_errors, unq
    from encode import enc
    quick = ctx.tier == "quick"
    base = layout_corpus(ctx, 3 if quick else 10)
    if quick:
        base = pick(base, 20, ctx.seed)
    # programs whose sources take part in several wire merges (bundle merges of entity outputs, same-typed sums): colour locking
    merges = [p for p in with_ids(gen.generate("GenEntity"), "en") if p["grp"] == "c06:cont" and "tot" in p["src"]]
    merges += [p for p in with_ids(gen.generate("GenScalar"), "sc") if p["grp"] in ("twocons",)]
    # stateful programs (decisions about the implementation of a cell are made per program)
    selfs = [p for p in with_ids(gen.generate("GenSelf"), "sf") if p["grp"] in ("const", "input", "cond", "register")]
    cells = [p for p in with_ids(gen.generate("GenMem"), "me") if p["grp"] in ("cell", "latch1")]
    regs = [p for p in selfs if p["grp"] == "register"]
    merges += (regs + pick_strat([p for p in selfs if p["grp"] != "register"], 6, ctx.seed, min_per=2) + pick(cells, 4, ctx.seed)) if quick else (selfs + pick(cells, 16, ctx.seed))
    have = {p["id"] for p in base}
    base += [p for p in merges if p["id"] not in have]
    # sibling of a program = the next one of the same family (same names, same shape, different decisions)
    fam = {}
    for p in base:
        fam.setdefault((p["id"].split("-")[0], p.get("grp", "").split(":")[0]), []).append(p)
    sibling = {}
    for (pref, _g), lst in fam.items():
        whole = [q for (pf, _), l2 in sorted(fam.items()) if pf == pref for q in l2]     # the whole module, other groups included
        for i, p in enumerate(lst):
            # up to 8 other programs of the module, programs of OTHER groups first (same names, different decisions)
            bygrp = {}
            for q in whole:
                if q["id"] != p["id"] and q.get("grp") != p.get("grp"):
                    bygrp.setdefault(q.get("grp"), []).append(q["src"])
            diff = [l2[k] for k in range(3) for _, l2 in sorted(bygrp.items()) if k < len(l2)]     # round-robin over the other groups
            same = [q["src"] for q in whole if q["id"] != p["id"] and q.get("grp") == p.get("grp")]
            sibling[p["id"]] = (diff[:6] + same[:2]) or [UNRELATED]
    ctx.cov["corpus_size"] = len(base)
    ctx.cov["exhaustive"] = False
    ctx.cov["rule"] = ("programs = GenLayout families + a slice of every other family; each compiled under 8 (quick) / 12 (thorough) variations: "
                       "Python hash seeds 0,1,2,3 in fresh processes, another working directory, solver seed / deterministic-time budget / "
                       "natural multi-worker wall-clock mode (hook H2), no-optimise excluded (same options only), a second in-process compile "
                       "after an unrelated program, a process of its own, a process of its own after a SIBLING program (next program of the same "
                       "family: same names and shape), forced relaxation (first 3 strategies fail) and a forced routing retry; TLC compares the "
                       "canonical form (Canon.tla: configured entities + partition of connectors into networks, relays contracted) of every "
                       "build with the reference build; non-trivial = programs whose builds differ in position / numbering / relay count")
    ctx.assumptions = ["Canon is sound (isomorphic circuits agree) and complete up to 1-WL", "background load is not varied (single sandbox)"] + ASSUME_BASE[2:3]
    det = {"det": True, "seed": 7, "dtime": 0.5, "workers": 1}
    variations = [
        ("ref", "0", {}),
        ("hashseed1", "1", {}),
        ("hashseed2", "2", {}),
        ("hashseed4", "4", {}),
        ("hashseed5", "5", {}),
        ("cwd", "0", {"cwd": "/"}),
        ("solver-seed", "0", {"layout": dict(det, seed=23)}),
        ("tiny-budget", "0", {"layout": dict(det, dtime=0.02)}),
        ("natural-4-workers", "0", {"layout": {"workers": 4, "wall": 2}}),
        ("after-unrelated", "0", {"pre_src": UNRELATED}),
        ("fresh-process", "0", {"fresh": True}),
        ("after-sibling", "0", {"fresh": True, "pre_sibling": True}),
    ]
    if not quick:
        variations += [("hashseed3", "3", {}), ("hashseed6", "6", {}), ("hashseed7", "7", {}), ("relaxed-ladder", "0", {"layout": dict(det, solve=["none", "none", "none"])}),
                       ("routing-retry", "0", {"layout": dict(det, route=[False])}), ("natural-1s", "1", {"layout": {"wall": 1}})]
    results = {}
    for hs in sorted({v[1] for v in variations}):
        jobs = []
        for p in base:
            for name, h, ov in variations:
                if h != hs:
                    continue
                job = {"id": p["id"] + "#" + name, "src": p["src"]}
                job.update(ov)
                if job.pop("pre_sibling", False):
                    job["pre_srcs"] = sibling[p["id"]]
                jobs.append(job)
        results.update(compile_all(jobs, hashseed=hs))
    recs, bps = [], []
    for p in base:
        units, how = [], []
        for name, h, ov in variations:
            r = results[p["id"] + "#" + name]
            if r.get("status") != "ok":
                if name == "ref":
                    break
                continue
            bps.append(prep_bp(r["bp"]))
            units.append(len(bps))
            how.append(name)
        if len(units) >= 2:
            recs.append({"id": p["id"], "units": units, "how": how})
        else:
            note_impl_reject(ctx, p, results[p["id"] + "#ref"])
    ctx.add("evaluations", sum(len(r["units"]) for r in recs))
    if not recs:
        raise Machinery("nothing compiled")
    # batches
    tasks, dirs = [], []
    B = 6
    for i in range(0, len(recs), B):
        chunk = recs[i:i + B]
        lo = min(u for r in chunk for u in r["units"])
        hi = max(u for r in chunk for u in r["units"])
        sub = [dict(r, units=[u - lo + 1 for u in r["units"]]) for r in chunk]
        d = os.path.join(ctx.wd, "canon%02d" % (i // B))
        os.makedirs(d)
        with open(os.path.join(d, "Data.tla"), "w") as fh:
            fh.write("---- MODULE Data ----\nEXTENDS Integers, TLC\nBPs == <<\n %s\n>>\nRecs == <<\n %s\n>>\n====\n" % (
                ",\n ".join(enc(b) for b in bps[lo - 1:hi]), ",\n ".join(enc(r) for r in sub)))
        with open(os.path.join(d, "T.tla"), "w") as fh:
            fh.write("---- MODULE T ----\nEXTENDS Canon\n====\n")
        with open(os.path.join(d, "T.cfg"), "w") as fh:
            fh.write("INIT CInit\nNEXT CNext\n")
        dirs.append(d)
        tasks.append(dict(module_dir=d, module="T", cfg="T.cfg", workers=1, timeout=1800))
    from common import run_tlc_many
    outs = run_tlc_many(tasks)
    seen = 0
    srcs = {p["id"]: p["src"] for p in base}
    for d, (code, out, wall) in zip(dirs, outs):
        with open(os.path.join(d, "tlc.out"), "w") as fh:
            fh.write(out)
        if tlc_errors(out) or code != 0:
            raise Machinery("Canon.tla failed in %s: %s" % (d, "; ".join(tlc_errors(out))[:600]))
        cs = tagged_tuples(out, "CANON")
        seen += len(cs)
        for c in cs:
            ctx.add("states", int(c[3]) + int(c[4]))
        for f in tagged_tuples(out, "FAIL"):
            rid = unq(f[1])
            ctx.violation(rid, unq(f[2]), ", ".join(f[3:]), {"src": srcs.get(rid), "item": {}, "module": "Canon"})
    if seen != len(recs):
        raise Machinery("Canon evaluated %d of %d records" % (seen, len(recs)))
    ctx.add("transitions", ctx.cov["states"])
    ctx.add("traces_validated_against_impl", sum(len(r["units"]) for r in recs))
    # non-triviality: the builds of a program really differ physically (positions / numbering / relays)
    nontriv = 0
    for r in recs:
        raw = {json.dumps(bps[u - 1]["entities"], sort_keys=True) + json.dumps(bps[u - 1]["wires"]) for u in r["units"]}
        if len(raw) >= 2:
            nontriv += 1
    ctx.add("distinct_nontrivial", nontriv)
    ctx.cov["programs"] = len(recs)
    for r in recs[:3]:
        ctx.sample({"src": srcs[r["id"]], "variants_compared": r["how"]})


def decode_blueprint_text(text):
    """base64 + zlib + JSON (blueprint string) or plain JSON, with the standard library only."""
    import base64
    import zlib
    t = text.strip()
    if t.startswith("{"):
        return json.loads(t), "json"
    if t.startswith("0"):
        return json.loads(zlib.decompress(base64.b64decode(t[1:]))), "string"
    raise ValueError("text is neither a blueprint string nor JSON")


USER_BOOL_PROPS = ("send_to_train", "read_from_train", "select_max", "always_on", "use_colors")


def prep_plan(ev):
    """Tag plan operands ([sig] / [const]) because TLC's equality is typed; everything else is passed through."""
    def tag(v):
        if isinstance(v, bool) or v is None:
            return None
        if isinstance(v, int):
            return {"const": v}
        if isinstance(v, str):
            return {"sig": v}
        return None
    pls = []
    for pl in ev["placements"]:
        pr = dict(pl.get("props") or {})
        for k in ("left_operand", "right_operand", "output_value"):
            if k in pr:
                t = tag(pr[k])
                if t is None:
                    pr.pop(k)
                else:
                    pr[k] = t
        for k in list(pr):
            if k.endswith("_signal_id") or k in ("footprint", "alignment"):
                pr.pop(k)
        if isinstance(pr.get("signals"), list):
            pr.pop("signals")
        rec = {"id": pl["id"], "type": pl["type"], "props": pr}
        if pl.get("role") == "user_entity":
            up = {k: int(bool(v)) for k, v in pr.items() if k in USER_BOOL_PROPS and isinstance(v, (bool, int))}
            for k in up:
                pr.pop(k)
            if up:
                rec["userprops"] = up
            if pl["type"].endswith("-combinator") and not any(k in pr for k in ("operation", "conditions", "signals", "signal_name", "left_operand")):
                rec["plain"] = True
        pls.append(rec)
    wires = [{k: v for k, v in w.items() if v is not None} for w in ev["wires"]]
    return {"placements": pls, "wires": wires}


@prop("C07")
def c07(ctx):
    from common import run_tlc, tagged_tuples, tlc_errors, unq
    from encode import enc
    quick = ctx.tier == "quick"
    confs = gen.generate("GenInvoke", deps=())
    confs.sort(key=lambda c: json.dumps(c, sort_keys=True))
    progs = []
    for mod, pref, n, filt in (("GenScalar", "sc", 3, lambda p: p["grp"] == "twocons"), ("GenScalar", "sc", 5, lambda p: p["grp"] in ("form", "share", "logic")),
                               ("GenBundle", "bu", 4, None),
                               ("GenEntity", "en", 5, lambda p: p["grp"].startswith("c06:")),
                               ("GenEntity", "en", 100, lambda p: p["grp"] in ("c09:props", "c09:usermade")), ("GenMem", "me", 3, lambda p: p["grp"] in ("cell", "latch1")),
                               ("GenLayout", "gl", 3, None), ("GenFL", "fl", 3, lambda p: p.get("mode") != "hist")):
        ps = with_ids(gen.generate(mod), pref)
        if filt:
            ps = [p for p in ps if filt(p)]
        progs += pick(ps, n if quick else 3 * n, ctx.seed)
    nconf = 24 if quick else len(confs)
    off = ctx.seed % len(confs)
    chosen = [confs[(off + i * (len(confs) // nconf)) % len(confs)] for i in range(nconf)] if quick else confs
    invs = []
    for i, c in enumerate(chosen):
        reps = 1 if quick else 2
        for k in range(reps):
            invs.append((c, progs[(i * reps + k + ctx.seed) % len(progs)]))
    # programs whose point is the exported configuration of user-placed entities: each at least once, under a rotating configuration
    for j, p in enumerate([p for p in progs if p.get("grp") in ("c09:props", "c09:usermade")]):
        invs.append((chosen[(j + ctx.seed) % len(chosen)], p))
    ctx.cov["corpus_size"] = len(confs) * len(progs)
    ctx.cov["exhaustive"] = False
    ctx.cov["rule"] = ("invocations = GenInvoke (every valid combination of entry point x file / -i input x string / --json x stdout / -o x "
                       "none / --no-optimize / --power-poles medium / --name: 80 configurations; quick takes 24 seed-rotated ones) x programs "
                       "from six families; each run as a REAL subprocess; the emitted text is decoded with the standard library and compared "
                       "by Export.tla entity by entity and wire by wire with the planned circuit dumped by hook H1 in the same process, the "
                       "string and JSON forms of the same program must decode to the same blueprint, and the decoded text is executed "
                       "against the interpreter (Refine1)")
    ctx.assumptions = ASSUME_BASE + ["base64/zlib/JSON decoding is done by the harness with the Python standard library"]
    clidir = os.path.join(ctx.wd, "cli")
    os.makedirs(clidir, exist_ok=True)
    from concurrent.futures import ThreadPoolExecutor

    def one(k):
        c, p = invs[k]
        src_file = os.path.join(clidir, "%s.facto" % p["id"])     # one file name per program: labels carry the file name
        if not os.path.exists(src_file):
            with open(src_file + ".tmp%d" % k, "w") as fh:
                fh.write(p["src"])
            os.replace(src_file + ".tmp%d" % k, src_file)
        out_file = os.path.join(clidir, "p%d.out" % k)
        trace = os.path.join(clidir, "p%d.trace" % k)
        args = [src_file] if c["input"] == "file" else ["-i", p["src"]]
        if c["form"] == "json":
            args.append("--json")
        if c["out"] == "file":
            args += ["-o", out_file]
        if c["opt"] == "noopt":
            args.append("--no-optimize")
        elif c["opt"] == "poles":
            args += ["--power-poles", "medium"]
        elif c["opt"] == "name":
            args += ["--name", "Verif Name"]
        code, so, se = run_cli(c["entry"], args, clidir, trace=trace)
        text = so
        if c["out"] == "file" and os.path.exists(out_file):
            text = open(out_file).read()
        plan = None
        if os.path.exists(trace):
            for line in open(trace):
                e = json.loads(line)
                if e.get("ev") == "plan":
                    plan = e
        return code, text, se, plan
    with ThreadPoolExecutor(8) as ex:
        outs = list(ex.map(one, range(len(invs))))
    recs, bps, compiled, rprogs = [], [], {}, []
    for k, ((c, p), (code, text, se, plan)) in enumerate(zip(invs, outs)):
        rid = "%s#%s-%s-%s-%s-%s" % (p["id"], c["entry"], c["input"], c["form"], c["out"], c["opt"])
        if code != 0:
            note_impl_reject(ctx, p, {"status": "rejected", "message": (se or "")[-300:]})
            continue
        try:
            dec, form = decode_blueprint_text(text)
        except Exception as ex:  # noqa: BLE001
            ctx.violation(rid, "C07_decodes", "exit status 0 but the emitted text does not decode: %s" % ex, {"src": p["src"], "item": {}, "conf": c})
            continue
        if form != c["form"]:
            ctx.violation(rid, "C07_form", "asked for %s, got %s" % (c["form"], form), {"src": p["src"], "item": {}, "conf": c})
        if plan is None:
            raise Machinery("no plan event recorded for %s (hook H1 missing?)" % rid)
        items = sorted({x["item"] for x in p.get("cins", [])}) if p.get("cins") else []
        bps.append(prep_bp(dec, extra=items))
        recs.append({"id": rid, "u": len(bps), "plan": prep_plan(plan), "stmts": p["stmts"]})
        q = dict(p)
        q["id"] = rid
        q["job"] = {"conf": c}
        if c["opt"] != "poles":
            rprogs.append(q)
        compiled[rid] = {"": {"status": "ok", "bp": dec}}
    ctx.add("evaluations", len(invs))
    ctx.cov["invocations_ok"] = len(recs)
    if not recs:
        raise Machinery("no invocation succeeded")
    # the other form of the same program through the API path must decode to the same blueprint: compare string vs json pairs
    byprog = {}
    for r in recs:
        parts = r["id"].split("#")[1].split("-")       # entry, input, form, out, opt
        byprog.setdefault(r["id"].split("#")[0] + "|" + parts[1] + "|" + parts[4], []).append(r)
    for lst in byprog.values():
        forms = {("-json-" in r["id"]): r for r in lst}
        if len(forms) == 2:
            forms[False]["u2"] = forms[True]["u"]
    d = os.path.join(ctx.wd, "export")
    os.makedirs(d)
    with open(os.path.join(d, "Data.tla"), "w") as fh:
        fh.write("---- MODULE Data ----\nEXTENDS Integers, TLC\nBPs == <<\n %s\n>>\nRecs == <<\n %s\n>>\n====\n" % (
            ",\n ".join(enc(b) for b in bps), ",\n ".join(enc(r) for r in recs)))
    with open(os.path.join(d, "T.tla"), "w") as fh:
        fh.write("---- MODULE T ----\nEXTENDS Export\n====\n")
    with open(os.path.join(d, "T.cfg"), "w") as fh:
        fh.write("INIT EInit\nNEXT ENext\n")
    code, out, wall = run_tlc(d, "T", cfg="T.cfg", timeout=1800)
    chk = tagged_tuples(out, "CHECKED")
    if tlc_errors(out) or not chk or int(chk[0][1]) != len(recs):
        raise Machinery("Export.tla did not evaluate all %d records: %s" % (len(recs), (tlc_errors(out) or [out[-1500:]])[0][:1500]))
    ctx.level = "translation_validation"
    ctx.cov["programs"] = len(recs)
    ctx.cov["entities_compared"] = sum(len(r["plan"]["placements"]) for r in recs)
    ctx.cov["wires_compared"] = sum(len(r["plan"]["wires"]) for r in recs)
    ctx.cov["disagreements_checked"] = ctx.cov["entities_compared"] + ctx.cov["wires_compared"]
    srcs = {r["id"]: p for r, p in zip(recs, [x for x in rprogs])}
    allsrc = {rid: pp["src"] for rid, pp in ((q["id"], q) for q in rprogs)}
    for f in tagged_tuples(out, "KNOWN"):
        ctx.known[unq(f[3])] = ctx.known.get(unq(f[3]), 0) + 1
    for f in tagged_tuples(out, "FAIL"):
        rid = unq(f[1])
        ctx.violation(rid, unq(f[2]), ", ".join(f[3:]), {"src": allsrc.get(rid), "item": {}, "module": "Export"})
    # executing the decoded text gives the planned behaviour: Refine1 on the decoded text
    def item(p, rs):
        return layout_item(p, rs[""])
    # (programs that only place and configure entities have no circuit behaviour to execute: their export is judged above)
    xprogs = [q for q in rprogs if not str(q.get("grp", "")).startswith("c09:")]
    run_refine(ctx, xprogs, {"DomCap": 30 if quick else 100}, item_fn=item, batch_size=10, precompiled=compiled)


def design_mc(ctx, module, cfg, workers=4, timeout=900, coverage=True, xmx="3g"):
    """Exhaustive small-instance check of a design model (tla/MC_*.tla); its states count as model-checking evidence."""
    import shutil
    from common import TLA_LIB, run_tlc, tlc_errors, tlc_stats
    d = os.path.join(ctx.wd, "mc-" + module + "-" + cfg.replace(".cfg", ""))
    os.makedirs(d, exist_ok=True)
    for f in (module + ".tla", cfg):
        shutil.copy(os.path.join(TLA_LIB[0], f), d)
    code, out, wall = run_tlc(d, module, cfg=cfg, workers=workers, timeout=timeout, coverage=coverage, xmx=xmx)
    if code != 0 or tlc_errors(out):
        if "is violated" in out:
            ctx.violation("design-" + module, "design_invariant", out[out.index("Error:"):][:1500], {"src": None, "item": {}, "module": module})
        else:
            raise Machinery("design model %s failed: %s" % (module, out[-1500:]))
    st, tr = tlc_stats(out)
    ctx.add("states", st)
    ctx.add("transitions", tr)
    ctx.cov.setdefault("design_models", {})[module + ":" + cfg] = {"distinct_states": st, "states_generated": tr, "seconds": round(wall, 1)}


@prop("C13")
def c13(ctx):
    progs = with_ids(gen.generate("GenImplicit"), "im")
    ctx.cov["corpus_size"] = len(progs)
    sel = progs
    ctx.cov["exhaustive"] = True
    ctx.cov["rule"] = ("(1) Alloc design model checked exhaustively on a small instance (every explicit subset, wrap-around); (2) programs = "
                       "GenImplicit (untyped inputs/constants/cells mixed with explicit uses of the first pool signals, up to 30 untyped values), "
                       "each with its RenameImplicit twin: static freshness of the chosen signals against the explicit names computed from the "
                       "AST, Refine1 of both builds, lock-step Refine2; (3) hook events of every compile (pool, alloc) validated as a behaviour "
                       "of the Alloc model with its invariants evaluated at every step")
    ctx.assumptions = ASSUME_BASE
    design_mc(ctx, "MC_Alloc", "MC_Alloc.cfg")

    def item(p, rs):
        return twin_item(p, rs)
    for p in sel:
        p["job"] = {"trace": True, "tracedir": ctx.wd}
    br = run_refine(ctx, sel, {"DomCap": 125 if ctx.tier == "quick" else 1000}, item_fn=item, variants=[("", {}), ("#twin", {"__twin": True})], batch_size=12,
                    keep_results=True)
    traces = []
    for p in sel:
        r = ctx.results.get(p["id"], {}).get("")
        if not r or r.get("status") != "ok":
            continue
        evs = [{k: v for k, v in e.items() if k in ("ev", "pool", "signal", "index", "warned")} for e in r.get("events", []) if e.get("ev") in ("pool", "alloc")]
        traces.append({"id": p["id"], "stmts": p["stmts"], "events": evs})
    ok, rej, fails, states, errors = refine.run_trace_batches(ctx.wd, "TraceAlloc", refine.CFG_TRACE_ALLOC, traces)
    if errors:
        raise Machinery("trace validation failed to run: " + " | ".join(errors[:2]))
    if len(ok) + len(rej) != len(traces):
        raise Machinery("trace validation: %d traces, %d verdicts" % (len(traces), len(ok) + len(rej)))
    ctx.add("states", states)
    ctx.cov["alloc_traces_accepted"] = len(ok)
    ctx.cov["alloc_events_validated"] = sum(len(t["events"]) for t in traces if t["id"] in set(ok))
    if traces and not any(len(t["events"]) >= 2 for t in traces):
        raise Machinery("no allocation events were recorded (hook H3 missing?)")
    src = {p["id"]: p for p in sel}
    for tid, got, total, nxt in rej:
        ctx.violation(tid, "C13_alloc_trace", "events %d..%d of the allocator trace are not a behaviour of Alloc; first unexplained event: %s" % (got + 1, total, nxt[:300]),
                      {"src": src[tid]["src"], "item": {}, "module": "TraceAlloc"})
    for tid, clause, info in fails:
        ctx.violation(tid, clause, info, {"src": src[tid]["src"], "item": {}, "module": "TraceAlloc"})


@prop("C15")
def c15(ctx):
    ctx.cov["rule"] = ("programs = GenFL function families (Signal/int/Entity parameters, int<->Signal coercion, expression arguments, locals that "
                       "shadow caller names, nested calls, conditional bodies, bodies that place entities or declare memory, calls in loops), each "
                       "with its Inline twin; both builds judged against the interpreter (which gives every call its own instances) and compared "
                       "in lock-step, over all valuations / all histories")
    fl_check(ctx, "func:")


@prop("C16")
def c16(ctx):
    ctx.cov["rule"] = ("programs = GenFL loop families (every (start, stop, step) of a small box incl. empty, descending and non-dividing ranges, "
                       "list iterators, nested and triangular loops, int-variable bounds, body-local ints/signals/shadowing/calls/memory), each "
                       "with its Unroll twin; entity conditions, placed entities and exported values of both builds judged against the "
                       "interpreter and compared in lock-step")
    fl_check(ctx, "loop:")


@prop("C17")
def c17(ctx):
    allp = with_ids(gen.generate("GenImport"), "gi")
    graphs = [dict(p, grp=p["grp"][6:]) for p in allp if p["grp"].startswith("graph:")]
    libs = [dict(p, grp=p["grp"][4:]) for p in allp if p["grp"].startswith("lib:")]
    ctx.cov["corpus_size"] = len(graphs) * 2 + len(libs)
    ctx.cov["exhaustive"] = True
    ctx.cov["rule"] = ("(1) Import design model checked exhaustively (every import relation over main + 3 files with <= 2 imports each: 28561 "
                       "graphs) for OnceEach, Bounded and the liveness property Terminates; (2) 9 import graphs (single, chain, diamond, the same "
                       "file twice, cycles of 2 and 3, self import) written to a scratch directory and compiled by file from two working "
                       "directories: hook events validated as a complete behaviour of Import, both builds judged against the interpreter and "
                       "compared in lock-step with the pasted twin (Facto!Paste); (3) every function of lib/math.facto x argument kinds, "
                       "Refine1 against its documented mathematical definition over the boundary domain, skipping arguments for which the "
                       "documented formula overflows")
    ctx.assumptions = ASSUME_BASE + ["library contracts = the documentation's formulas transcribed in Facto!LibVal",
                                     "termination: a compile that exceeds 120 s is reported as C17_terminates"]
    design_mc(ctx, "MC_Import", "MC_Import.cfg")
    # (2) graphs
    recs = []
    other = os.path.join(ctx.wd, "elsewhere")
    os.makedirs(other, exist_ok=True)
    for gi, p in enumerate(graphs):
        top = os.path.join(ctx.wd, "imp%d" % gi)
        d = os.path.join(top, p["subdir"]) if p.get("subdir") else top
        os.makedirs(d, exist_ok=True)
        for f, txt in p["filesrc"].items():
            with open(os.path.join(d, f), "w") as fh:
                fh.write(txt)
        for f, txt in (p.get("decoys") or {}).items():      # same-named, different files in the working directory
            with open(os.path.join(top, f), "w") as fh:
                fh.write(txt)
        with open(os.path.join(d, "main.facto"), "w") as fh:
            fh.write(p["src"])
        rel = os.path.join(p["subdir"], "main.facto") if p.get("subdir") else "main.facto"
        for cw, tag in ((top, "here"), (other, "elsewhere")):
            q = dict(p)
            q["id"] = p["id"] + "-" + tag
            q["job"] = {"source_name": os.path.join(d, "main.facto") if tag == "elsewhere" else rel, "cwd": cw, "trace": True, "tracedir": ctx.wd}
            recs.append(q)
        # process history (fourth seeded round: imported text cached per path for the life of the process): in its own copy of
        # the directory the worker first writes an EARLIER edition of every imported file (each integer literal + 1), compiles
        # main in this very process, puts the files back as given and only then does the judged compile
        earlier = {f: re.sub(r"(?<![\w.\"-])(\d+)(?![\w.\"])", lambda m: str(int(m.group(1)) + 1), txt) for f, txt in p["filesrc"].items()}
        if any(earlier[f] != p["filesrc"][f] for f in earlier):
            tope = os.path.join(ctx.wd, "imp%d-edited" % gi)
            de = os.path.join(tope, p["subdir"]) if p.get("subdir") else tope
            os.makedirs(de, exist_ok=True)
            for f, txt in p["filesrc"].items():
                with open(os.path.join(de, f), "w") as fh:
                    fh.write(txt)
            for f, txt in (p.get("decoys") or {}).items():
                with open(os.path.join(tope, f), "w") as fh:
                    fh.write(txt)
            with open(os.path.join(de, "main.facto"), "w") as fh:
                fh.write(p["src"])
            q = dict(p)
            q["id"] = p["id"] + "-edited"
            q["job"] = {"source_name": rel, "cwd": tope, "trace": False,
                        "edit_first": {os.path.join(de, f): [earlier[f], p["filesrc"][f]] for f in earlier}}
            recs.append(q)

    def item(p, rs):
        it = twin_item(p, rs)
        it["files"] = p["files"]
        return it
    compiled_before = len(recs)
    br = run_refine(ctx, recs, {"DomCap": 200}, item_fn=item, variants=[("", {}), ("#twin", {"__twin": True, "source_name": "<string>", "cwd": None, "trace": False, "edit_first": None})],
                    batch_size=6, keep_results=True)
    traces = []
    for p in recs:
        r = ctx.results.get(p["id"], {}).get("")
        if not r:
            continue
        if r.get("status") == "timeout":
            ctx.violation(p["id"], "C17_terminates", "compile did not return within the wall bound", {"src": p["src"], "item": {}, "module": "Import"})
            continue
        if r.get("status") != "ok" or p["id"].endswith("-edited"):
            continue
        evs = [{"kind": e["kind"], "file": os.path.basename(e["path"])} for e in r.get("events", []) if e.get("ev") == "import"]
        traces.append({"id": p["id"], "graph": p["graph"], "events": evs})
    ok, rej, fails, states, errors = refine.run_trace_batches(ctx.wd, "TraceImport", refine.CFG_TRACE_IMPORT, traces, batch_size=30)
    if errors:
        raise Machinery("import trace validation failed to run: " + " | ".join(errors[:2]))
    if len(ok) + len(rej) != len(traces):
        raise Machinery("import trace validation: %d traces, %d verdicts" % (len(traces), len(ok) + len(rej)))
    if traces and not any(t["events"] for t in traces):
        raise Machinery("no import events were recorded (hook H4 missing?)")
    ctx.add("states", states)
    ctx.cov["import_traces_accepted"] = len(ok)
    src = {p["id"]: p for p in recs}
    for tid, got, total, nxt in rej:
        ctx.violation(tid, "C17_import_trace", "import events are not a complete behaviour of Import: %d of %d explained; next: %s" % (got, total, nxt[:200]),
                      {"src": src[tid]["src"], "item": {}, "module": "TraceImport"})
    for tid, clause, info in fails:
        ctx.violation(tid, clause, info, {"src": src[tid]["src"], "item": {}, "module": "TraceImport"})
    # (3) library contracts
    def litem(p, rs):
        return {"id": p["id"], "stmts": p["stmts"], "u": 1, "dom": p["dom"], "bps": [prep_bp(rs[""]["bp"])]}
    lsel = pick(libs, 20, ctx.seed) if ctx.tier == "quick" else libs
    run_refine(ctx, lsel, {"DomCap": 200}, item_fn=litem, batch_size=6)


@prop("C20")
def c20(ctx):
    progs = with_ids(gen.generate("GenScalar"), "sc")
    ctx.cov["corpus_size"] = len(progs)
    if ctx.tier == "quick":
        sel = pick(progs, 150, ctx.seed + 1, always=SMOKE.get("C20", ()))
        have = {p["id"] for p in sel}
        sel += [p for p in progs if p["grp"] == "share" and p["id"] not in have]     # aliases, shared values: what C20's clauses are about
        consts = {"DomCap": 64}
    else:
        sel = progs
        consts = {"DomCap": 216}
        ctx.cov["exhaustive"] = True
    ctx.cov["rule"] = ("every program of the GenScalar core compiled with and without optimisation; TLC checks for each build: producer "
                       "label = name + line, exactly one anchor (or a constant producer), anchor value = interpreter value, every typed "
                       "constant declaration present as a labelled constant combinator with its value")
    ctx.assumptions = ASSUME_BASE

    def item(p, rs):
        return {"id": p["id"], "stmts": p["stmts"], "u": 1, "u2": 2, "r1both": True, "cmp": [],
                "bps": [prep_bp(rs[""]["bp"]), prep_bp(rs["#noopt"]["bp"])]}
    run_refine(ctx, sel, consts, item_fn=item, variants=[("", {}), ("#noopt", {"optimize": False})], batch_size=30)


SMOKE = {}


def replay(ctx, path):
    """Recompile the recorded program(s) on the current tree and re-run the single trace instance with the
    clauses as real invariants (Strict), which yields TLC's own counterexample trace."""
    with open(path) as fh:
        rp = json.load(fh)
    pl = rp["payload"]
    if pl.get("kind") in ("cse", "cse-instance"):
        import cse
        rp["path"] = path
        return cse.replay_cse(ctx, rp)
    if pl.get("kind") in ("colour", "colour-instance"):
        import colour
        rp["path"] = path
        return colour.replay_colour(ctx, rp)
    p = {"id": rp["record"], "src": pl["src"], "src2": pl.get("src2"), "job": pl.get("job", {})}
    variants = [tuple(v) for v in pl.get("variants") or [("", {})]]
    compiled = compile_records(ctx, [p], pl.get("opts"), variants)
    rs = compiled[p["id"]]
    bad = [r for r in rs.values() if r.get("status") != "ok"]
    if bad:
        print("replay: compiler now says %s: %s" % (bad[0].get("status"), bad[0].get("message")))
        return 0
    it = dict(pl["item"])
    it["bps"] = [prep_bp(rs[suf]["bp"]) for suf, _ in variants]
    c = dict(pl.get("consts") or {})
    c["Strict"] = True
    c["Clauses"] = [rp["clause"]]
    br = refine.run_batches(ctx.wd, pl.get("module", "Refine"), pl.get("cfg") or refine.CFG_REFINE, [it], c, batch_size=1)
    out = open(os.path.join(ctx.wd, "b000", "tlc.out")).read()
    if "is violated" in out or "Assumption" in out and "is false" in out:
        i = out.index("Error:")
        print(out[i:i + 8000])
        print("VIOLATION property=%s replay=%s" % (ctx.pid, path))
        return 1
    if br.errors:
        print("\n".join(br.errors))
        return 2
    print("replay: record now passes (%s)" % p["id"])
    return 0
