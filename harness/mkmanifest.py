"""Regenerates /verif/MANIFEST.json from the table below (kept valid at all times)."""
import json
import os
import subprocess

VERIF = os.path.dirname(os.path.dirname(os.path.abspath(__file__)))

TRUST = ("Trusted: Circuit.tla/Int32.tla as a transcription of Factorio 2.0 circuit rules (pinned by litmus traces and a "
         "7.5k-case arithmetic self-test, no game binary available); Facto.tla as a transcription of LANGUAGE_SPEC.md; TLC/SANY/JVM; "
         "the generic JSON->TLA+ encoder. Bounded: programs from the closed corpus of the Gen* specifications, inputs over a boundary "
         "domain, corners of DESIGN 5.4 skipped and counted.")

CHECKS = {
    "C01": dict(
        text=("TLC explores the emitted circuit (Circuit.tla interpreting the raw blueprint JSON) from every valuation of a boundary "
              "domain until it settles and compares every exported result with the Facto.tla interpreter, for every program of the "
              "GenScalar exhaustive core (all ordered operator pairs in both tree shapes with minimal parentheses, operand-kind matrix, "
              "unary/projection/literal/conditional forms, sharing patterns). Exhaustive within those bounds; this is the strongest "
              "level reachable without the game itself."),
        design="DESIGN 7 C01",
        technique="TLC trace validation of compiler output against Facto/Circuit TLA+ specs over all boundary valuations"),
}

CHECKS.update({
    "C02": dict(
        text=("As C01 but the compared observable is the WHOLE signal bag on each result's anchor network, for every program of the GenBundle "
              "core (literals incl. nested/merged, each-arithmetic x operand kinds, filters x output modes x thresholds, any/all, selection, "
              "chains): a leaked operand, a doubled or a missing member is a failure. Exhaustive within the stated bounds."),
        design="DESIGN 7 C02", technique="TLC trace validation of compiler output: whole-bag refinement over all boundary valuations"),
    "C03": dict(
        text=("TLC explores ALL input histories (closure of ChangeInput over a trimmed boundary domain, one input changed at a time and held "
              "until settled) of the product of the emitted circuit with the abstract gated cell of Facto.tla, for every program of the GenMem "
              "cell families and of the GenFL programs that declare cells inside functions and loop bodies, comparing every reader at every settled state. Hardware races (enable dropped while data changed) are detected "
              "by the abstract machine, not judged and counted."),
        design="DESIGN 7 C03, 6.1", technique="TLC model checking of Circuit(BP) x abstract memory machine over all input histories"),
    "C04": dict(
        text=("For every program of GenSelf (m.write(f(m.read())), f a chain of 1..4 steps; optimised and unoptimised builds, so both the "
              "arithmetic-feedback and the two-gate implementation) and every constant valuation, TLC runs the circuit 52 ticks from the "
              "all-zero state and checks EXISTS L in 1..6 FORALL t >= W: value(t+L) = f(value(t)) with f evaluated by the Facto interpreter, "
              "on the direct reader and (as a delayed function of the cell) on every other reader."),
        design="DESIGN 7 C04", technique="TLC per-tick relation on linear behaviours of Circuit(BP) with a history variable"),
    "C05": dict(
        text=("As C03 with the abstract SR/RS latch (priority = the argument named first): all input histories for both argument orders x "
              "value kinds x set/reset as boolean signals, comparisons on two inputs, and comparisons on one input with disjoint / touching / "
              "overlapping thresholds (inlined and non-inlined latch implementations both arise)."),
        design="DESIGN 7 C05", technique="TLC model checking of Circuit(BP) x abstract latch over all input histories"),
    "C06": dict(
        text=("For every program of GenEntity (5 controllable prototypes x 15 enable forms, shared sources, contents read through .output "
              "incl. inlined any/all, selections and merges of two chests), optimised and unoptimised, and every valuation of inputs and "
              "chest contents, TLC evaluates the placed entity's circuit condition on the network actually wired to it and compares it with "
              "(expr > 0); values derived from .output are compared as in C01/C02 (so a contribution counted twice is a failure)."),
        design="DESIGN 7 C06", technique="TLC refinement of entity circuit conditions with environment emitters"),
    "C07": dict(
        text=("Every valid way of invoking the compiler (GenInvoke: entry point x file / -i x string / --json x stdout / -o x options) is run "
              "as a real subprocess on programs of six families; the emitted text is decoded (base64+zlib+JSON with the standard library) "
              "and Export.tla compares it entity by entity (operation, operands, constants, network selections, condition rows and "
              "connectives, outputs and copy mode, constant sections, circuit conditions, static boolean properties of user-placed entities incl. values that "
              "switch a default off) and wire by wire with the planned circuit recorded "
              "by hook H1 in the same process; the string and JSON forms must decode to one blueprint; the decoded text is then executed "
              "against the interpreter (Refine1), so 'executing the decoded text gives the planned behaviour' is checked by execution."),
        design="DESIGN 7 C07", category="translation_validation",
        technique="TLC translation validation of the exported text against the recorded plan (Export.tla) + refinement of the decoded text"),
    "C08": dict(
        text=("(1) The layout stage's control flow (retry loop, relaxation ladder, quick solve, routing) is a TLA+ design model checked "
              "exhaustively (safety and liveness). (2) Its behaviours are forced into the real code as layout-outcome scripts (hook H2) for "
              "programs of every family x pole option x optimise on/off; every emitted blueprint is checked by Paste.tla (collision boxes "
              "disjoint, wire ends exist with such a connector, one colour per wire, length within the reach of both ends, prototype data "
              "from the game data) and must still refine the source (a relay joining two networks changes a value); the recorded solver / "
              "routing events must be a behaviour of the model ending in the observed outcome; a scripted total failure must emit nothing."),
        design="DESIGN 7 C08, 3.5 Layout", technique="TLC design model + fault scripts replayed into the code + trace validation + geometric invariants on the output"),
    "C09": dict(
        text=("TLC compares the bag of non-compiler-made entities of the blueprint with the interpreter's list of executed place() "
              "statements (loops iterate, calls substitute, int arithmetic is Int32): prototype, top-left tile, static properties (a property equal to the game's default may be left out); "
              "nothing extra, nothing missing; with and without power poles; user-placed poles and combinators must be present at their tiles."),
        design="DESIGN 7 C09", technique="TLC evaluation of bag equality between blueprint entities and the specification's elaboration"),
    "C10": dict(
        text=("Every program of the scalar and bundle cores is compiled with and without optimisation; TLC runs the two emitted circuits in "
              "lock-step from every boundary valuation and requires equal observations on every exported result (Refine2); an output only one "
              "build exposes is a difference. In addition the CSE pass has a design model (Cse.tla: single pass with canonicalised keys, "
              "rewiring; MergeSound / Partition / RewireSound / NoDuplicateKept model-checked over every pair and chain of a small operation "
              "universe), every CSE pass recorded by hook H6 during these compilations is judged against it (TraceCse.tla) and 27k (quick) / "
              "89k (thorough) TLC-enumerated operation sequences are built as real IR nodes and run through the real CSEOptimizer."),
        design="DESIGN 7 C10, 14.11 Cse", technique="TLC lock-step product of two compiled blueprints (Refine2); TLC design model of the CSE pass + trace validation of recorded passes (code -> spec) "
        "+ TLC-enumerated operation sequences replayed into the real optimizer (spec -> code)"),
    "C11": dict(
        text=("Every arithmetic operator x 7 folding sites x all defined pairs of 9 boundary operands: the folded build is judged against the "
              "interpreter whose compile-time arithmetic is Int32.tla, compared in lock-step with its Deconst twin (the constant replaced by an "
              "input pinned to the same value, i.e. the operation performed by a combinator at run time), and any out-of-int32 constant in an "
              "accepted blueprint is rejected."),
        design="DESIGN 7 C11", technique="TLC refinement against Int32 compile-time semantics + lock-step twin comparison"),
    "C12": dict(
        text=("Pairs (P, Q) of small programs over disjoint names that reuse the same explicit signals and neighbouring tiles, in ALL "
              "order-preserving interleavings: the build of the interleaved program runs in lock-step with the build of P alone (and Q alone) "
              "from every valuation of both programs' inputs; P's exported values and entity conditions must coincide, hence be independent "
              "of Q's inputs. In addition the wire-colour design model Colour.tla (the mechanism that keeps different sources of one signal "
              "type apart) is model-checked exhaustively (every edge sequence / lock choice of a small universe: lock respected, total, "
              "sound, flag truthful, complete, terminating), every call of the real planner recorded by hook H5 during these compilations "
              "is judged against it by TraceColour.tla, and TLC-enumerated planner inputs (104k instances; a 6k slice in quick) are fed to "
              "the real plan_wire_colors and judged the same way."),
        design="DESIGN 7 C12, 14.9 Colour", technique="TLC lock-step product of build(P;Q) with build(P) / build(Q) over the joint input space; "
        "TLC design model of wire colouring + trace validation of planner calls (code -> spec) + TLC-enumerated planner inputs replayed into the code (spec -> code)"),
    "C13": dict(
        text=("(1) The allocator design model Alloc.tla is model-checked exhaustively on a small instance (all explicit subsets, wrap-around) "
              "for NotSpecial / FreshVsExplicit / InjectiveUntilWrap. (2) Hook events (pool, alloc) of every compile are validated as a "
              "behaviour of that model, with the explicit signal names computed from the AST by the spec. (3) Static freshness of the chosen "
              "signals on the blueprint, Refine1 of every program and lock-step Refine2 against its RenameImplicit twin."),
        design="DESIGN 7 C13, 3.5 Alloc", technique="TLC design model + trace validation of allocator hook events + twin refinement"),
    "C14": dict(
        text=("Every ill-formed program of GenIll (40 blocks over the 20 documented rules x 4 embedding contexts x 3 positions) is replayed "
              "through the compiler API and, one per rule, through the real command line; TLC evaluates ill-formed => rejected with a "
              "non-empty error naming the offending identifier, non-zero exit, nothing decodable as a blueprint on stdout or in the -o file."),
        design="DESIGN 7 C14", category="model_checking", technique="TLC evaluation of the rejection property on recorded compile outcomes of spec-generated ill-formed programs"),
    "C15": dict(
        text=("Every program of the GenFL function families is compiled together with its Inline twin (Facto!Inline: body substituted, "
              "parameters bound to the arguments, locals renamed apart, return expression in place of the call); TLC judges both builds "
              "against the interpreter (which gives every call its own combinators, cells and entities) and compares them in lock-step over "
              "all valuations, and over all input histories for bodies that declare memory."),
        design="DESIGN 7 C15/C16", technique="TLC lock-step product of a program's build and its specification-computed inlined twin"),
    "C16": dict(
        text=("Every program of the GenFL loop families (all (start, stop, step) of a small box incl. empty / descending / non-dividing, "
              "list iterators, nested and triangular loops, int-variable bounds, body-local declarations incl. shadowing, calls and memory) "
              "is compiled together with its Unroll twin (Facto!Unroll); entity conditions, placed entities and exported values of both "
              "builds are judged against the interpreter and compared in lock-step."),
        design="DESIGN 7 C15/C16", technique="TLC lock-step product of a program's build and its specification-computed unrolled twin"),
    "C17": dict(
        text=("(1) The import preprocessor's design model Import.tla is model-checked exhaustively (all 28561 import relations over main + 3 "
              "files with <= 2 imports each) for 'inlined at most once', a bounded expansion stack and the liveness property Terminates. "
              "(2) Nine import graphs (chain, diamond, same file twice, 2- and 3-cycles, self import) are compiled by file from two working "
              "directories: the recorded import events must form a complete behaviour of Import, and both builds are judged against the "
              "interpreter and in lock-step against the pasted twin (Facto!Paste). (3) Every function of lib/math.facto is judged against "
              "its documented mathematical definition over the boundary domain (arguments whose documented formula overflows are skipped)."),
        design="DESIGN 7 C17, 3.5 Import", technique="TLC design model incl. liveness + trace validation of import hook events + twin refinement + library contracts"),
    "C18": dict(
        text=("For programs of every family x pole type: Paste.tla's power clauses on the poled build (every electricity consumer touches the "
              "supply area of a pole of the requested type, poles form one copper network with wires within reach), 'every pole is a relay' on "
              "the plain build, lock-step equality of exported values between the two builds and equal bags of user-placed entities."),
        design="DESIGN 7 C18", technique="TLC evaluation of power/geometry invariants + lock-step product of poled and plain builds"),
    "C19": dict(
        text=("Each program is compiled under 8-12 variations (hash seeds in fresh processes, working directory, solver seed, time budget, "
              "natural multi-worker mode, forced relaxation / routing retry, second in-process compile after an unrelated program); TLC "
              "compares the canonical form of every build (Canon.tla: multiset of configured entities incl. labels + partition of their "
              "connectors into networks with relays contracted) with the reference build."),
        design="DESIGN 7 C19", technique="TLC comparison of canonical forms (Canon.tla) of builds produced under varied schedules/configurations"),
    "C20": dict(
        text=("For every program of the scalar core, optimised and unoptimised build: producer label carries name and line, exactly one empty "
              "anchor labelled with the name (or a constant producer), the anchor reads the interpreter's value on the result's own signal, every "
              "typed constant declaration is a constant combinator labelled with name, line and value."),
        design="DESIGN 7 C20", technique="TLC evaluation of label/exposure clauses + value refinement on compiler output"),
})

NOT_YET = {}


def main():
    with open(os.path.join(VERIF, "properties.jsonl")) as fh:
        ids = [json.loads(l)["id"] for l in fh if l.strip()]
    try:
        commits = subprocess.run(["git", "-C", "/repo", "log", "--format=%h %s"], capture_output=True, text=True).stdout.splitlines()
    except Exception:
        commits = []
    hook_commits = [c.split()[0] for c in commits if c.split(" ", 1)[1].startswith("verif hooks")]
    checks = []
    for pid in ids:
        if pid not in CHECKS:
            continue
        c = CHECKS[pid]
        checks.append({
            "property_id": pid,
            "quick_cmd": "./check %s --tier quick" % pid,
            "thorough_cmd": "./check %s --tier thorough" % pid,
            "evidence_file": "/verif/evidence/%s.json" % pid,
            "replay_cmd_template": "./check %s --replay {path}" % pid,
            "engine": "tlc-refine",
            "level_claimed": {"category": c.get("category", "model_checking"), "text": c["text"], "design_ref": c["design"]},
            "level_note": c.get("note", TRUST),
            "technique": c["technique"],
        })
    na = [{"property_id": pid, "reason": NOT_YET.get(pid, "check not built yet in this round (planned, see DESIGN 13); nothing is claimed for it")}
          for pid in ids if pid not in CHECKS]
    man = {
        "version": 1,
        "setup_cmd": "./check setup",
        "hooks": {
            "guard": "FACTOMPILER_VERIF",
            "enable": "compile workers run /venv/bin/python with PYTHONPATH=/repo and FACTOMPILER_VERIF=1 (hooks in dsl_compiler/src/common/verif_hooks.py; every call site is behind `if verif_hooks.ON`)",
            "baseline_off_cmd": "cd /repo && env -u FACTOMPILER_VERIF /venv/bin/python -m pytest -ra -q -p no:cacheprovider --timeout=900 --continue-on-collection-errors",
            "source_commits": hook_commits,
            "add_only": True,
        },
        "engines": [
            {"name": "tlc-refine", "path": "/verif/check", "serves_properties": [c["property_id"] for c in checks],
             "kind_free_text": "TLA+ specifications (tla/*.tla) checked by TLC 1.8; programs generated by Gen*.tla, compiled by the real "
                               "compiler from /repo's working tree, blueprints validated against Refine.tla in batches"},
        ],
        "checks": checks,
        "not_applicable": na,
        "notes": "exit 2 = machinery failure (never a violation). known_findings.json lists genuine defects (open = excused by a narrow TLA+ trigger, fixed = repaired by a fix: commit).",
    }
    with open(os.path.join(VERIF, "MANIFEST.json"), "w") as fh:
        json.dump(man, fh, indent=1)
    print("MANIFEST: %d checks, %d not_applicable" % (len(checks), len(na)))


if __name__ == "__main__":
    main()
