"""`./check setup`: build/parse everything and run the trusted-base self-tests (DESIGN 5.3, 4.4).

 1. SANY-parse every library module against the stub Data module
 2. Int32.tla against Python big-int reference arithmetic on boundary x boundary operand pairs
 3. Circuit litmus circuits (hand-built blueprints with documented in-game behaviour)
 4. binding demonstration: a recorded compile is accepted; each single-field corruption of it is rejected
 5. known_findings.json and KnownFindings.tla list the same open ids
"""
import json
import os
import re
import subprocess
import sys

from common import TLA, VERIF, Machinery, run_tlc, tagged_tuples, tlc_errors, workdir

MODULES = ["Int32", "Facto", "Circuit", "KnownFindings", "Refine", "GenScalar"]


def sany():
    extra = [m[:-4] for m in sorted(os.listdir(TLA)) if m.endswith(".tla")]
    r = subprocess.run([os.path.join(VERIF, "harness", "sany.sh")] + extra, capture_output=True, text=True)
    if r.returncode != 0:
        raise Machinery("SANY: " + r.stdout[-2000:])
    return len(extra)


def wrap32(x):
    x &= 0xFFFFFFFF
    return x - (1 << 32) if x >= (1 << 31) else x


def ref_op(op, a, b):
    if op == "+":
        return wrap32(a + b)
    if op == "-":
        return wrap32(a - b)
    if op == "*":
        return wrap32(a * b)
    if op == "/":
        if b == 0:
            return 0
        q = abs(a) // abs(b)
        return wrap32(q if (a < 0) == (b < 0) else -q)
    if op == "%":
        if b == 0:
            return 0
        r = abs(a) % abs(b)
        return wrap32(r if a >= 0 else -r)
    if op == "^":
        return wrap32(pow(a, b, 1 << 64)) if b >= 0 else 0
    if op == "<<":
        return wrap32(a << b)
    if op == ">>":
        return wrap32(a >> b)
    if op == "AND":
        return wrap32((a & 0xFFFFFFFF) & (b & 0xFFFFFFFF))
    if op == "OR":
        return wrap32((a & 0xFFFFFFFF) | (b & 0xFFFFFFFF))
    if op == "XOR":
        return wrap32((a & 0xFFFFFFFF) ^ (b & 0xFFFFFFFF))
    raise ValueError(op)


def defined(op, a, b):
    if op in ("<<", ">>"):
        return 0 <= b <= 31
    if op == "^":
        return b >= 0
    if op in ("/", "%"):
        return not (a == -2 ** 31 and b == -1)
    return True


def int32_selftest(wd):
    B = [-2 ** 31, -2 ** 31 + 1, -65537, -65536, -46341, -32769, -32768, -257, -7, -2, -1, 0, 1, 2, 3, 7, 31, 32, 255, 256, 32767, 32768,
         46340, 46341, 65535, 65536, 65537, 2 ** 31 - 2, 2 ** 31 - 1]
    ops = ["+", "-", "*", "/", "%", "^", "<<", ">>", "AND", "OR", "XOR"]
    cases = []
    for op in ops:
        for a in B:
            for b in B:
                if not defined(op, a, b):
                    continue
                if op == "^" and b > 70000:
                    continue
                cases.append((op, a, b, ref_op(op, a, b)))
    d = os.path.join(wd, "int32")
    os.makedirs(d)

    def lit(x):
        return "(-2147483647 - 1)" if x == -2 ** 31 else ("(%d)" % x if x < 0 else str(x))
    rows = ",\n".join('<<"%s", %s, %s, %s>>' % (op, lit(a), lit(b), lit(r)) for op, a, b, r in cases)
    with open(os.path.join(d, "T.tla"), "w") as fh:
        fh.write("---- MODULE T ----\nEXTENDS Int32, Sequences, TLC\nCases == <<\n%s\n>>\n"
                 "Bad == {i \\in DOMAIN Cases : Op32(Cases[i][1], Cases[i][2], Cases[i][3]) # Cases[i][4]}\n"
                 "ASSUME PrintT(<<\"INT32\", Len(Cases), Bad, IF Bad = {} THEN <<>> ELSE Cases[CHOOSE i \\in Bad : TRUE]>>)\n"
                 "VARIABLE x\nInit == x = 0\nNext == x' = x\n====\n" % rows)
    with open(os.path.join(d, "T.cfg"), "w") as fh:
        fh.write("INIT Init\nNEXT Next\n")
    code, out, wall = run_tlc(d, "T", cfg="T.cfg", timeout=600)
    t = tagged_tuples(out, "INT32")
    if not t or tlc_errors(out):
        raise Machinery("Int32 self-test did not run: " + out[-1500:])
    if t[0][2].strip() != "{}":
        raise Machinery("Int32.tla disagrees with reference arithmetic: %s" % t[0])
    return len(cases)


def known_sync():
    with open(os.path.join(VERIF, "known_findings.json")) as fh:
        ids = {k["id"] for k in json.load(fh)["findings"]}
    with open(os.path.join(TLA, "KnownFindings.tla")) as fh:
        txt = fh.read()
    tla_ids = set(re.findall(r'"(KF-[A-Za-z0-9_-]+)"', txt))
    if ids != tla_ids:
        raise Machinery("known_findings.json %s and KnownFindings.tla %s disagree" % (sorted(ids), sorted(tla_ids)))
    return len(ids)


def design_binding(wd):
    """Binding demonstration for the two design-model trace specifications: an intact recorded result is accepted, a corrupted one
    (one colour flipped / one merge invented) is rejected with the expected clause."""
    import colour
    import cse
    from common import snapshot_tla
    snapshot_tla(wd)
    n = 0
    edges = [{"src": 1, "snk": 1, "sig": 1, "merge": 0}, {"src": 2, "snk": 1, "sig": 1, "merge": 0}]
    good = {"edges": edges, "locked": [], "assign": [{"n": [1, 1], "c": "red"}, {"n": [2, 1], "c": "green"}], "bip": True, "conf": []}
    bad = dict(good, assign=[{"n": [1, 1], "c": "red"}, {"n": [2, 1], "c": "red"}])
    fails, div, judged, states = colour.judge(wd, [{"id": "good", "call": good}, {"id": "bad", "call": bad}], tag="selfcol")
    if [f[0] for f in fails if f[0] == "good"] or not any(f[0] == "bad" and f[1] == "COL_sound" for f in fails):
        raise Machinery("TraceColour binding demonstration failed: %s" % fails)
    n += 1
    leaf = {"kind": "leaf"}
    one = {"k": "int", "v": 1}
    a = {"kind": "decider", "conds": [{"cmp": ">", "a": {"k": "sig", "src": 1, "t": "A"}, "b": one, "ct": "or"}], "ov": one, "copy": False, "out": "X"}
    b = dict(a, copy=True)
    ops = [leaf, leaf, a, b]
    good = {"ops": ops, "repl": [], "after": ops}
    bad = {"ops": ops, "repl": [{"a": 4, "b": 3}], "after": [leaf, leaf, a, {"kind": "leaf", "gone": True}]}
    fails, div, judged, states = cse.judge(wd, [{"id": "good", "call": good}, {"id": "bad", "call": bad}], tag="selfcse")
    if [f[0] for f in fails if f[0] == "good"] or not any(f[0] == "bad" and f[1] == "CSE_sound" for f in fails):
        raise Machinery("TraceCse binding demonstration failed: %s" % fails)
    return n + 1


def run():
    wd = workdir("setup")
    try:
        r = subprocess.run(["/venv/bin/python", os.path.join(VERIF, "harness", "mkproto.py"), os.path.join(TLA, "Proto.tla")],
                           capture_output=True, text=True, cwd="/tmp")
        if r.returncode != 0:
            raise Machinery("mkproto failed: " + r.stderr[-1500:])
        print("setup: " + r.stdout.strip())
        n = sany()
        print("setup: %d modules parsed" % n)
        n = int32_selftest(wd)
        print("setup: Int32 agrees with reference arithmetic on %d cases" % n)
        import litmus
        n = litmus.run(wd)
        print("setup: %d circuit litmus traces reproduced" % n)
        import binding
        n = binding.run(wd)
        print("setup: binding demonstration: intact record accepted, %d corruptions rejected" % n)
        n = design_binding(wd)
        print("setup: design-model bindings: %d trace specifications accept the intact result and reject the corrupted one" % n)
        n = known_sync()
        print("setup: %d open known findings in sync" % n)
    except Machinery as ex:
        print("SETUP-FAILURE: %s" % ex)
        return 2
    finally:
        import shutil
        shutil.rmtree(wd, ignore_errors=True)
    return 0
