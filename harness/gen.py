"""Run generator specifications (spec -> code direction). Programs are behaviours / constant sets of
Gen*.tla enumerated by TLC; results are cached under cache/ keyed by the hash of the TLA+ sources
(they do not depend on the repository under test)."""
import hashlib
import json
import os
import shutil

from common import CACHE, TLA, TLA_LIB, Machinery, run_tlc, tlc_errors


def _hash_sources(mods, extra=""):
    h = hashlib.sha256()
    for m in sorted(mods):
        with open(os.path.join(TLA_LIB[0], m + ".tla"), "rb") as fh:
            h.update(fh.read())
    h.update(extra.encode())
    return h.hexdigest()[:16]


def generate(module, deps=("Facto", "Int32"), env=None, simulate=None, cfg_text=None, timeout=900, tag=""):
    """Returns the list of program records produced by Gen module `module` (JSON via IOEnv.GEN_OUT)."""
    os.makedirs(CACHE, exist_ok=True)
    key = _hash_sources((module,) + tuple(deps), json.dumps([env, simulate, cfg_text, tag], sort_keys=True))
    path = os.path.join(CACHE, "%s-%s.json" % (module, key))
    if os.path.exists(path):
        with open(path) as fh:
            return json.load(fh)
    d = os.path.join(CACHE, "gen-%s-%d" % (module, os.getpid()))
    shutil.rmtree(d, ignore_errors=True)
    os.makedirs(d)
    out = os.path.join(d, "out.json")
    with open(os.path.join(d, "G.tla"), "w") as fh:
        fh.write("---- MODULE G ----\nEXTENDS %s\nVARIABLE g_x\nGInit == g_x = 0\nGNext == g_x' = g_x\n====\n" % module)
    with open(os.path.join(d, "G.cfg"), "w") as fh:
        fh.write(cfg_text or "INIT GInit\nNEXT GNext\n")
    old = dict(os.environ)
    os.environ["GEN_OUT"] = out
    for k, v in (env or {}).items():
        os.environ[k] = str(v)
    try:
        code, text, wall = run_tlc(d, "G", workers=1, timeout=timeout, simulate=simulate)
    finally:
        os.environ.clear()
        os.environ.update(old)
    if not os.path.exists(out):
        raise Machinery("generator %s produced no output:\n%s" % (module, "\n".join(tlc_errors(text)) or text[-2000:]))
    with open(out) as fh:
        progs = json.load(fh)
    # deterministic order independent of TLC's set iteration order
    progs.sort(key=lambda p: (p.get("grp", ""), p.get("src", ""), json.dumps(p, sort_keys=True)))
    with open(path, "w") as fh:
        json.dump(progs, fh)
    shutil.rmtree(d, ignore_errors=True)
    return progs


def prog_id(prefix, p):
    return "%s-%s" % (prefix, hashlib.sha256(json.dumps(p, sort_keys=True).encode()).hexdigest()[:10])


def generate_sim(module, num, depth, seed, deps=("Facto", "Int32"), timeout=900):
    """Closed corpus from a state-machine generator run in TLC simulation mode with a FIXED seed: byte-identical on every run
    (checked by setup). Programs are printed as <<"PROG", json>> from an invariant."""
    from common import tagged_tuples
    os.makedirs(CACHE, exist_ok=True)
    key = _hash_sources((module,) + tuple(deps), json.dumps([num, depth, seed]))
    path = os.path.join(CACHE, "%s-sim-%s.json" % (module, key))
    if os.path.exists(path):
        with open(path) as fh:
            return json.load(fh)
    d = os.path.join(CACHE, "sim-%s-%d" % (module, os.getpid()))
    shutil.rmtree(d, ignore_errors=True)
    os.makedirs(d)
    with open(os.path.join(d, "G.tla"), "w") as fh:
        fh.write("---- MODULE G ----\nEXTENDS %s\n====\n" % module)
    with open(os.path.join(d, "G.cfg"), "w") as fh:
        fh.write("SPECIFICATION Spec\nINVARIANT Emit\nCHECK_DEADLOCK FALSE\n")
    code, text, wall = run_tlc(d, "G", cfg="G.cfg", workers=1, timeout=timeout, simulate="num=%d" % num, extra=("-depth", str(depth), "-seed", str(seed)))
    progs = []
    for f in tagged_tuples(text, "PROG"):
        progs.append(json.loads(json.loads(f[1])))
    if len(progs) < num // 2:
        raise Machinery("simulation generator %s produced %d programs: %s" % (module, len(progs), text[-1500:]))
    seen, uniq = set(), []
    for p in progs:
        if p["src"] not in seen:
            seen.add(p["src"])
            uniq.append(p)
    with open(path, "w") as fh:
        json.dump(uniq, fh)
    shutil.rmtree(d, ignore_errors=True)
    return uniq
